/-! scratch: bitmap-level `advance_to_impl` (iter.rs:38-93) over abstract container cursors -/
namespace T

abbrev Sorted (l : List Nat) : Prop := l.Pairwise (· < ·)

structure CK where
  Cont : Type
  CIter : Type
  key : Cont → Nat
  elems : Cont → List Nat
  iter : Cont → CIter
  ikey : CIter → Nat
  rem : CIter → List Nat
  advanceTo : CIter → Nat → CIter
  elems_hi : ∀ c x, x ∈ elems c → x / 65536 = key c
  rem_hi : ∀ it x, x ∈ rem it → x / 65536 = ikey it
  iter_rem : ∀ c, rem (iter c) = elems c
  iter_key : ∀ c, ikey (iter c) = key c
  adv_key : ∀ it i, ikey (advanceTo it i) = ikey it
  /-- container-level kernel fact (proved for array and bitset stores separately) -/
  adv_rem : ∀ it i, i < 65536 → rem (advanceTo it i) = (rem it).filter (fun x => decide (ikey it * 65536 + i ≤ x))

variable (K : CK)

structure Iter where
  front : Option K.CIter
  containers : List K.Cont
  back : Option K.CIter

def orem (o : Option K.CIter) : List Nat := match o with | none => [] | some it => K.rem it
@[simp] theorem orem_some' (K : CK) (x : K.CIter) : (match (some x : Option K.CIter) with | none => [] | some it => K.rem it) = K.rem x := rfl
def mid (cs : List K.Cont) : List Nat := cs.flatMap K.elems
def Iter.rem (it : Iter K) : List Nat := orem K it.front ++ mid K it.containers ++ orem K it.back

structure Iter.Inv (it : Iter K) : Prop where
  sorted : Sorted (it.containers.map K.key)
  fr : ∀ f, it.front = some f → ∀ c ∈ it.containers, K.ikey f < K.key c
  bk : ∀ b, it.back = some b → ∀ c ∈ it.containers, K.key c < K.ikey b
  fb : ∀ f b, it.front = some f → it.back = some b → K.ikey f < K.ikey b

/-- `containers_slice.binary_search_by_key(&key, |c| c.key)` on key-sorted input: Ok(loc) / Err(loc) -/
def search (cs : List K.Cont) (key : Nat) : Nat × Bool :=
  let loc := (cs.takeWhile (fun c => K.key c < key)).length
  (loc, match cs[loc]? with | some c => K.key c == key | none => false)

/-- after the front iterator has been dealt with (lines 61-92) -/
def advanceRest (it : Iter K) (key index : Nat) : Iter K :=
  let (loc, found) := search K it.containers key
  if found then
    match it.containers[loc]? with
    | some c => { it with front := some (K.advanceTo (K.iter c) index), containers := it.containers.drop (loc + 1) }
    | none => it
  else
    let cs' := it.containers.drop loc            -- `containers.nth(to_skip - 1)`
    if loc ≠ it.containers.length then { it with containers := cs' }
    else
      match it.back with
      | none => { it with containers := cs' }
      | some b =>
        if key < K.ikey b then { it with containers := cs' }
        else if key = K.ikey b then { it with containers := cs', back := some (K.advanceTo b index) }
        else { it with containers := cs', back := none }

def advanceToImpl (it : Iter K) (n : Nat) : Iter K :=
  let key := n / 65536
  let index := n % 65536
  match it.front with
  | some f =>
    if key < K.ikey f then it
    else if key = K.ikey f then { it with front := some (K.advanceTo f index) }
    else advanceRest K { it with front := none } key index
  | none => advanceRest K it key index

theorem orem_some (x : K.CIter) : orem K (some x) = K.rem x := rfl
theorem orem_none : orem K none = [] := rfl

/-! ### filter helpers -/
theorem filter_keep (l : List Nat) (n : Nat) (h : ∀ x ∈ l, n ≤ x) : l.filter (fun x => decide (n ≤ x)) = l := by
  rw [List.filter_eq_self]; intro x hx; simp [h x hx]
theorem filter_drop (l : List Nat) (n : Nat) (h : ∀ x ∈ l, x < n) : l.filter (fun x => decide (n ≤ x)) = [] := by
  rw [List.filter_eq_nil_iff]; intro x hx; have := h x hx; simp; omega

theorem mid_hi (cs : List K.Cont) (x : Nat) (h : x ∈ mid K cs) : ∃ c ∈ cs, x / 65536 = K.key c := by
  simp only [mid, List.mem_flatMap] at h
  obtain ⟨c, hc, hx⟩ := h
  exact ⟨c, hc, K.elems_hi c x hx⟩

/-- splitting a key-sorted chunk list at the search position -/
theorem split_at_search (cs : List K.Cont) (key : Nat) (hs : Sorted (cs.map K.key)) :
    let loc := (cs.takeWhile (fun c => K.key c < key)).length
    (∀ c ∈ cs.take loc, K.key c < key) ∧ (∀ c ∈ cs.drop loc, key ≤ K.key c) := by
  induction cs with
  | nil => simp
  | cons c cs ih =>
    have hs' : Sorted (cs.map K.key) := (List.pairwise_cons.mp hs).2
    by_cases h : K.key c < key
    · simp only [List.takeWhile_cons, h, decide_true, ↓reduceIte, List.length_cons, List.take_succ_cons,
        List.mem_cons, List.drop_succ_cons]
      have := ih hs'
      refine ⟨?_, this.2⟩
      rintro d (rfl | hd)
      · exact h
      · exact this.1 d hd
    · simp only [List.takeWhile_cons, h, decide_false, List.length_nil, List.take_zero, List.drop_zero]
      refine ⟨by simp, ?_⟩
      intro d hd
      rcases List.mem_cons.mp hd with rfl | hd
      · omega
      · have := (List.pairwise_cons.mp hs).1 (K.key d) (List.mem_map_of_mem hd); omega

theorem mid_split (cs : List K.Cont) (loc : Nat) : mid K cs = mid K (cs.take loc) ++ mid K (cs.drop loc) := by
  unfold mid; rw [← List.flatMap_append, List.take_append_drop]

theorem advanceRest_spec (it : Iter K) (hi : it.Inv K) (n : Nat) (hf : it.front = none) :
    (advanceRest K it (n / 65536) (n % 65536)).rem K = (it.rem K).filter (fun x => decide (n ≤ x)) ∧
    (advanceRest K it (n / 65536) (n % 65536)).Inv K := by
  have hidx : n % 65536 < 65536 := Nat.mod_lt _ (by omega)
  obtain ⟨hlt, hge⟩ := split_at_search K it.containers (n / 65536) hi.sorted
  -- the chunks before the search position are entirely below n
  have hdrop_pre : (mid K (it.containers.take (it.containers.takeWhile (fun c => K.key c < n / 65536)).length)).filter
      (fun x => decide (n ≤ x)) = [] := by
    apply filter_drop
    intro x hx
    obtain ⟨c, hc, hxc⟩ := mid_hi K _ x hx
    have := hlt c hc; omega
  have hsorted_drop : ∀ k, Sorted ((it.containers.drop k).map K.key) := by
    intro k; rw [List.map_drop]; exact List.Pairwise.sublist (List.drop_sublist _ _) hi.sorted
  unfold advanceRest search
  simp only []
  generalize hloc : (it.containers.takeWhile (fun c => K.key c < n / 65536)).length = loc at *
  cases hget : it.containers[loc]? with
  | none =>
    -- every chunk is below the target key
    have hlen : it.containers.length ≤ loc := by simpa using hget
    have hall : it.containers.drop loc = [] := List.drop_eq_nil_of_le hlen
    have htake : it.containers.take loc = it.containers := List.take_of_length_le hlen
    have hloc_eq : loc = it.containers.length := by
      have : loc ≤ it.containers.length := by rw [← hloc]; exact (List.takeWhile_sublist _).length_le
      omega
    rw [htake] at hdrop_pre
    simp only [Bool.false_eq_true, ↓reduceIte, hloc_eq, ne_eq, not_true_eq_false, List.drop_length]
    cases hb : it.back with
    | none =>
      simp only [Iter.rem, hf, orem, hb, mid, List.flatMap_nil, List.append_nil, List.nil_append]
      refine ⟨by rw [← mid]; exact hdrop_pre.symm, ⟨by simp [Sorted], by simp, by simp, by simp [hb]⟩⟩
    | some b =>
      simp only []
      by_cases c1 : n / 65536 < K.ikey b
      · simp only [c1, ↓reduceIte, Iter.rem, hf, orem, hb, mid, List.flatMap_nil, List.nil_append,
          List.filter_append]
        rw [← mid, hdrop_pre]
        refine ⟨?_, ⟨by simp [Sorted], by simp, by simp, by simp [hf]⟩⟩
        simp only [List.nil_append]
        symm; apply filter_keep
        intro x hx; have := K.rem_hi b x hx; omega
      · simp only [c1, ↓reduceIte]
        by_cases c2 : n / 65536 = K.ikey b
        · simp only [c2, ↓reduceIte, Iter.rem, hf, orem, hb, mid, List.flatMap_nil, List.nil_append,
            List.filter_append]
          rw [← mid, hdrop_pre, K.adv_rem b _ hidx]
          have : K.ikey b * 65536 + n % 65536 = n := by omega
          rw [this]
          refine ⟨by simp, ⟨by simp [Sorted], by simp, by simp, by simp [hf]⟩⟩
        · simp only [c2, ↓reduceIte, Iter.rem, hf, orem, hb, mid, List.flatMap_nil, List.nil_append,
            List.filter_append]
          rw [← mid, hdrop_pre]
          refine ⟨?_, ⟨by simp [Sorted], by simp, by simp, by simp⟩⟩
          simp only [List.nil_append]
          symm; apply filter_drop
          intro x hx; have := K.rem_hi b x hx; omega
  | some c =>
    have hlen : loc < it.containers.length := by
      rcases Nat.lt_or_ge loc it.containers.length with h | h
      · exact h
      · rw [List.getElem?_eq_none h] at hget; cases hget
    have hdropc : it.containers.drop loc = c :: it.containers.drop (loc + 1) := by
      rw [List.drop_eq_getElem_cons hlen]
      congr 1
      rw [List.getElem?_eq_getElem hlen] at hget; exact Option.some.inj hget
    have hcge : n / 65536 ≤ K.key c := hge c (by rw [hdropc]; simp)
    have htail : ∀ d ∈ it.containers.drop (loc + 1), K.key c < K.key d := by
      intro d hd
      have := hsorted_drop loc
      rw [hdropc] at this
      exact (List.pairwise_cons.mp this).1 (K.key d) (List.mem_map_of_mem hd)
    have hkeep_tail : (mid K (it.containers.drop (loc + 1))).filter (fun x => decide (n ≤ x)) =
        mid K (it.containers.drop (loc + 1)) := by
      apply filter_keep
      intro x hx
      obtain ⟨d, hd, hxd⟩ := mid_hi K _ x hx
      have := htail d hd; omega
    have hrem_split : it.rem K = mid K (it.containers.take loc) ++ (K.elems c ++ mid K (it.containers.drop (loc+1))) ++ orem K it.back := by
      simp only [Iter.rem, hf, orem, List.nil_append]
      rw [mid_split K it.containers loc, hdropc]
      simp [mid]
    by_cases hk : K.key c = n / 65536
    · -- Ok(loc): this chunk becomes the front iterator
      simp only [hk, beq_self_eq_true, ↓reduceIte]
      refine ⟨?_, ?_⟩
      · rw [hrem_split]
        simp only [Iter.rem, orem_some, List.filter_append]
        rw [hdrop_pre, hkeep_tail, K.adv_rem _ _ hidx, K.iter_rem, K.iter_key, hk]
        have : n / 65536 * 65536 + n % 65536 = n := by omega
        rw [this]
        have hb_keep : (orem K it.back).filter (fun x => decide (n ≤ x)) = orem K it.back := by
          apply filter_keep
          intro x hx
          cases hb : it.back with
          | none => simp [orem, hb] at hx
          | some b =>
            simp only [orem, hb] at hx
            have h1 := K.rem_hi b x hx
            have h2 := hi.bk b hb c (List.mem_of_getElem? hget)
            omega
        rw [hb_keep]; simp
      · refine ⟨hsorted_drop _, ?_, ?_, ?_⟩
        · intro f hf' d hd
          simp only [Option.some.injEq] at hf'
          subst hf'
          rw [K.adv_key, K.iter_key]; exact htail d hd
        · intro b hb d hd
          exact hi.bk b hb d (List.mem_of_mem_drop hd)
        · intro f b hf' hb
          simp only [Option.some.injEq] at hf'
          subst hf'
          rw [K.adv_key, K.iter_key]
          exact hi.bk b hb c (List.mem_of_getElem? hget)
    · -- Err(loc) with chunks of larger keys still ahead: nothing more to trim
      have hk' : n / 65536 < K.key c := by omega
      have hne : (K.key c == n / 65536) = false := by simp [hk]
      have hlne : loc ≠ it.containers.length := by omega
      simp only [hne, Bool.false_eq_true, ↓reduceIte, hlne, ne_eq, not_false_eq_true]
      refine ⟨?_, ?_⟩
      · simp only [Iter.rem, hf, orem_none, List.nil_append]
        rw [mid_split K it.containers loc]
        simp only [List.filter_append]
        rw [hdrop_pre]
        have h1 : (mid K (it.containers.drop loc)).filter (fun x => decide (n ≤ x)) = mid K (it.containers.drop loc) := by
          apply filter_keep
          intro x hx
          obtain ⟨d, hd, hxd⟩ := mid_hi K _ x hx
          have : K.key c ≤ K.key d := by
            rw [hdropc] at hd
            rcases List.mem_cons.mp hd with rfl | hd
            · omega
            · have := htail d hd; omega
          omega
        have h2 : (orem K it.back).filter (fun x => decide (n ≤ x)) = orem K it.back := by
          apply filter_keep
          intro x hx
          cases hb : it.back with
          | none => simp [orem, hb] at hx
          | some b =>
            simp only [orem, hb] at hx
            have h1 := K.rem_hi b x hx
            have h2 := hi.bk b hb c (List.mem_of_getElem? hget)
            omega
        rw [h1, h2]; simp
      · refine ⟨hsorted_drop _, by simp [hf], ?_, by simp [hf]⟩
        intro b hb d hd
        exact hi.bk b hb d (List.mem_of_mem_drop hd)

theorem advanceToImpl_spec (it : Iter K) (hi : it.Inv K) (n : Nat) :
    (advanceToImpl K it n).rem K = (it.rem K).filter (fun x => decide (n ≤ x)) ∧ (advanceToImpl K it n).Inv K := by
  have hidx : n % 65536 < 65536 := Nat.mod_lt _ (by omega)
  unfold advanceToImpl
  simp only []
  cases hf : it.front with
  | none => exact advanceRest_spec K it hi n hf
  | some f =>
    simp only []
    -- everything after the front iterator has a larger high part than the front iterator
    have hrest : ∀ x ∈ mid K it.containers ++ orem K it.back, K.ikey f < x / 65536 := by
      intro x hx
      rcases List.mem_append.mp hx with hx | hx
      · obtain ⟨c, hc, hxc⟩ := mid_hi K _ x hx
        have := hi.fr f hf c hc; omega
      · cases hb : it.back with
        | none => simp [orem, hb] at hx
        | some b =>
          simp only [orem, hb] at hx
          have := K.rem_hi b x hx
          have := hi.fb f b hf hb; omega
    have hsplit : it.rem K = K.rem f ++ (mid K it.containers ++ orem K it.back) := by
      simp [Iter.rem, hf, orem_some, List.append_assoc]
    by_cases c1 : n / 65536 < K.ikey f
    · simp only [c1, ↓reduceIte]
      refine ⟨?_, hi⟩
      symm; apply filter_keep
      intro x hx
      rw [hsplit] at hx
      rcases List.mem_append.mp hx with hx | hx
      · have := K.rem_hi f x hx; omega
      · have := hrest x hx; omega
    · simp only [c1, ↓reduceIte]
      by_cases c2 : n / 65536 = K.ikey f
      · simp only [c2, ↓reduceIte]
        refine ⟨?_, ⟨hi.sorted, ?_, hi.bk, ?_⟩⟩
        · rw [hsplit]
          simp only [Iter.rem, orem_some, List.filter_append, List.append_assoc]
          rw [K.adv_rem f _ hidx]
          have : K.ikey f * 65536 + n % 65536 = n := by omega
          rw [this]
          congr 1
          rw [← List.filter_append]
          symm; apply filter_keep
          intro x hx; have := hrest x hx; omega
        · intro g hg c hc
          simp only [Option.some.injEq] at hg; subst hg
          rw [K.adv_key]; exact hi.fr f hf c hc
        · intro g b hg hb
          simp only [Option.some.injEq] at hg; subst hg
          rw [K.adv_key]; exact hi.fb f b hf hb
      · simp only [c2, ↓reduceIte]
        have hinv' : Iter.Inv K { it with front := none } :=
          ⟨hi.sorted, by simp, hi.bk, by simp⟩
        have := advanceRest_spec K { it with front := none } hinv' n rfl
        refine ⟨?_, this.2⟩
        rw [this.1, hsplit]
        simp only [Iter.rem, orem_none, List.nil_append, List.filter_append]
        rw [filter_drop (K.rem f) n (by intro x hx; have := K.rem_hi f x hx; omega)]
        simp
end T
#print axioms T.advanceToImpl_spec
