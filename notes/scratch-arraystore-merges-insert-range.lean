/-! scratch: ArrayStore two-pointer merges (scalar.rs) and range splice (array_store/mod.rs:89-151) -/
namespace A
abbrev Sorted (l : List Nat) : Prop := l.Pairwise (· < ·)

/-- scalar::or — `visit_slice(&lhs[i..]); visit_slice(&rhs[j..])` are the two base cases -/
def orL : List Nat → List Nat → List Nat
  | [], r => r
  | l, [] => l
  | a :: l, b :: r =>
    if a < b then a :: orL l (b :: r)
    else if b < a then b :: orL (a :: l) r
    else a :: orL l r
termination_by l r => l.length + r.length

def andL : List Nat → List Nat → List Nat
  | [], _ => []
  | _, [] => []
  | a :: l, b :: r =>
    if a < b then andL l (b :: r)
    else if b < a then andL (a :: l) r
    else a :: andL l r
termination_by l r => l.length + r.length

def subL : List Nat → List Nat → List Nat
  | [], _ => []
  | l, [] => l
  | a :: l, b :: r =>
    if a < b then a :: subL l (b :: r)
    else if b < a then subL (a :: l) r
    else subL l r
termination_by l r => l.length + r.length

def xorL : List Nat → List Nat → List Nat
  | [], r => r
  | l, [] => l
  | a :: l, b :: r =>
    if a < b then a :: xorL l (b :: r)
    else if b < a then b :: xorL (a :: l) r
    else xorL l r
termination_by l r => l.length + r.length

theorem mem_orL (l r : List Nat) (x : Nat) : x ∈ orL l r ↔ x ∈ l ∨ x ∈ r := by
  fun_induction orL l r <;> grind
theorem sorted_orL (l r : List Nat) (hl : Sorted l) (hr : Sorted r) : Sorted (orL l r) := by
  fun_induction orL l r <;> grind [List.pairwise_cons, mem_orL]

theorem mem_andL (l r : List Nat) (hl : Sorted l) (hr : Sorted r) (x : Nat) : x ∈ andL l r ↔ x ∈ l ∧ x ∈ r := by
  fun_induction andL l r <;> grind [List.pairwise_cons]
theorem sorted_andL (l r : List Nat) (hl : Sorted l) (hr : Sorted r) : Sorted (andL l r) := by
  fun_induction andL l r <;> grind [List.pairwise_cons, mem_andL]

theorem mem_subL (l r : List Nat) (hl : Sorted l) (hr : Sorted r) (x : Nat) : x ∈ subL l r ↔ x ∈ l ∧ x ∉ r := by
  fun_induction subL l r <;> grind [List.pairwise_cons]
theorem sorted_subL (l r : List Nat) (hl : Sorted l) (hr : Sorted r) : Sorted (subL l r) := by
  fun_induction subL l r <;> grind [List.pairwise_cons, mem_subL]

theorem mem_xorL (l r : List Nat) (hl : Sorted l) (hr : Sorted r) (x : Nat) :
    x ∈ xorL l r ↔ (x ∈ l ∧ x ∉ r) ∨ (x ∉ l ∧ x ∈ r) := by
  fun_induction xorL l r <;> grind [List.pairwise_cons]
theorem sorted_xorL (l r : List Nat) (hl : Sorted l) (hr : Sorted r) : Sorted (xorL l r) := by
  fun_induction xorL l r <;> grind [List.pairwise_cons, mem_xorL]

/-- intersection_len = CardinalityCounter over scalar::and -/
def andLen : List Nat → List Nat → Nat
  | [], _ => 0
  | _, [] => 0
  | a :: l, b :: r =>
    if a < b then andLen l (b :: r)
    else if b < a then andLen (a :: l) r
    else 1 + andLen l r
termination_by l r => l.length + r.length
theorem andLen_eq (l r : List Nat) : andLen l r = (andL l r).length := by
  fun_induction andLen l r <;> grind [andL]

/-! ### range splice: `vec.splice(pos_start..pos_end, start..=end)` with the two binary searches -/
def lowerBound (v : List Nat) (x : Nat) : Nat := (v.takeWhile (· < x)).length
/-- pos_start = binary_search(&start).unwrap_or_else(|x| x); pos_end = pos_start + (Ok(x) => x+1 | Err(x) => x) on `vec[pos_start..]` -/
def insertRange (v : List Nat) (s e : Nat) : List Nat × Nat :=
  let ps := lowerBound v s
  let pe := (v.takeWhile (· ≤ e)).length          -- first position with value > e
  let dropped := pe - ps
  (v.take ps ++ (List.range' s (e - s + 1)) ++ v.drop pe, e - s + 1 - dropped)

theorem takeWhile_lt_eq_filter (v : List Nat) (hv : Sorted v) (x : Nat) : v.takeWhile (· < x) = v.filter (· < x) := by
  induction v with
  | nil => rfl
  | cons a v ih =>
    have hv' := (List.pairwise_cons.mp hv)
    by_cases h : a < x
    · simp [List.takeWhile_cons, List.filter_cons, h, ih hv'.2]
    · simp only [List.takeWhile_cons, List.filter_cons, h, decide_false, Bool.false_eq_true, ↓reduceIte]
      symm; rw [List.filter_eq_nil_iff]
      intro y hy; have := hv'.1 y hy; simp; omega

theorem drop_takeWhile_le (v : List Nat) (hv : Sorted v) (e : Nat) :
    v.drop (v.takeWhile (· ≤ e)).length = v.filter (e < ·) := by
  induction v with
  | nil => rfl
  | cons a v ih =>
    have hv' := (List.pairwise_cons.mp hv)
    by_cases h : a ≤ e
    · have : ¬ e < a := by omega
      simp [List.takeWhile_cons, List.filter_cons, h, this, ih hv'.2]
    · have h' : e < a := by omega
      simp only [List.takeWhile_cons, h, decide_false, Bool.false_eq_true, ↓reduceIte, List.length_nil, List.drop_zero,
        List.filter_cons, h', decide_true]
      congr 1
      symm; rw [List.filter_eq_self]
      intro y hy; have := hv'.1 y hy; simp; omega

theorem take_takeWhile_length (v : List Nat) (p : Nat → Bool) : v.take (v.takeWhile p).length = v.takeWhile p :=
  (List.prefix_iff_eq_take.mp (List.takeWhile_prefix p)).symm

theorem mem_insertRange (v : List Nat) (hv : Sorted v) (s e : Nat) (hse : s ≤ e) (x : Nat) :
    x ∈ (insertRange v s e).1 ↔ (s ≤ x ∧ x ≤ e) ∨ x ∈ v := by
  unfold insertRange lowerBound
  simp only []
  rw [take_takeWhile_length, takeWhile_lt_eq_filter v hv, drop_takeWhile_le v hv]
  simp only [List.mem_append, List.mem_filter, List.mem_range'_1, decide_eq_true_eq]
  constructor
  · rintro ((⟨h, _⟩ | ⟨h1, h2⟩) | ⟨h, _⟩)
    · right; exact h
    · left; omega
    · right; exact h
  · rintro (⟨h1, h2⟩ | h)
    · left; right; omega
    · by_cases c1 : x < s
      · left; left; exact ⟨h, c1⟩
      · by_cases c2 : e < x
        · right; exact ⟨h, c2⟩
        · left; right; omega

/-- guard `s ≤ e`: Store::insert_range returns early on an empty range, so the array code is never entered
    with `s > e` (where the truncated `e - s + 1` of the total Lean definition would wrongly give 1). -/
theorem sorted_insertRange (v : List Nat) (hv : Sorted v) (s e : Nat) (hse : s ≤ e) : Sorted (insertRange v s e).1 := by
  unfold insertRange lowerBound
  simp only []
  rw [take_takeWhile_length, takeWhile_lt_eq_filter v hv, drop_takeWhile_le v hv]
  rw [Sorted, List.pairwise_append, List.pairwise_append]
  refine ⟨⟨List.Pairwise.sublist List.filter_sublist hv, List.pairwise_lt_range', ?_⟩,
          List.Pairwise.sublist List.filter_sublist hv, ?_⟩
  · intro a ha b hb
    simp only [List.mem_filter, decide_eq_true_eq] at ha
    rw [List.mem_range'_1] at hb; omega
  · intro a ha b hb
    simp only [List.mem_filter, decide_eq_true_eq] at hb
    rcases List.mem_append.mp ha with ha | ha
    · simp only [List.mem_filter, decide_eq_true_eq] at ha; omega
    · rw [List.mem_range'_1] at ha; omega
end A
#print axioms A.mem_insertRange
#print axioms A.sorted_xorL
