/-! scratch: directory layer over an abstract store kernel — `RoaringBitmap::insert` refines set insertion.
    Validates the "named kernel hypothesis" architecture of DESIGN §5. -/
namespace D

abbrev Sorted (l : List Nat) : Prop := l.Pairwise (· < ·)

/-- what the directory layer needs to know about a store implementation -/
structure Kernel where
  Store : Type
  elems : Store → List Nat                 -- low 16-bit values, ascending
  WF : Store → Prop                        -- includes non-emptiness and the kind invariant
  empty : Store                            -- Store::new() (not WF: empty)
  insert : Store → Nat → Store × Bool      -- Container::insert (with ensure_correct_store)
  elems_empty : elems empty = []
  wf_sorted : ∀ s, WF s → Sorted (elems s) ∧ (∀ x ∈ elems s, x < 65536) ∧ elems s ≠ []
  /-- KERNEL FACT (to be discharged for the concrete Array/Bitmap stores) -/
  insert_spec : ∀ s x, (WF s ∨ s = empty) → x < 65536 →
    WF (insert s x).1 ∧ (∀ y, y ∈ elems (insert s x).1 ↔ y = x ∨ y ∈ elems s) ∧
    (insert s x).2 = !decide (x ∈ elems s)

variable (K : Kernel)

structure Container where
  key : Nat
  store : K.Store

abbrev Bitmap := List (Container K)

def cElems (c : Container K) : List Nat := (K.elems c.store).map (fun l => c.key * 65536 + l)
def elems (b : Bitmap K) : List Nat := b.flatMap (cElems K)

def WF (b : Bitmap K) : Prop :=
  Sorted (b.map (·.key)) ∧ ∀ c ∈ b, c.key < 65536 ∧ K.WF c.store

/-- `binary_search_by_key(&key, |c| c.key)` on a key-sorted vector -/
def search (b : Bitmap K) (key : Nat) : Nat × Bool :=   -- (loc, found)
  let loc := (b.takeWhile (fun c => c.key < key)).length
  (loc, match b[loc]? with | some c => c.key == key | none => false)

/-- inherent.rs:187 -/
def insert (b : Bitmap K) (v : Nat) : Bitmap K × Bool :=
  let key := v / 65536
  let index := v % 65536
  let (loc, found) := search K b key
  if found then
    match b[loc]? with
    | some c => let (s', r) := K.insert c.store index; (b.set loc { c with store := s' }, r)
    | none => (b, false)          -- unreachable
  else
    let (s', r) := K.insert K.empty index
    (b.insertIdx loc { key := key, store := s' }, r)

/-- recursive form used for induction; equal to the position-based form on key-sorted input -/
def insertRec (key index : Nat) : Bitmap K → Bitmap K × Bool
  | [] => let (s', r) := K.insert K.empty index; ([{ key := key, store := s' }], r)
  | c :: cs =>
    if c.key < key then let (cs', r) := insertRec key index cs; (c :: cs', r)
    else if c.key = key then let (s', r) := K.insert c.store index; ({ c with store := s' } :: cs, r)
    else let (s', r) := K.insert K.empty index; ({ key := key, store := s' } :: c :: cs, r)

theorem insert_cons_lt (c : Container K) (cs : Bitmap K) (v : Nat) (h : c.key < v / 65536) :
    insert K (c :: cs) v = (c :: (insert K cs v).1, (insert K cs v).2) := by
  unfold insert search
  simp only [List.takeWhile_cons, h, decide_true, ↓reduceIte, List.length_cons, List.getElem?_cons_succ]
  cases hloc : cs[(List.takeWhile (fun c => decide (c.key < v / 65536)) cs).length]? with
  | none => simp [List.insertIdx_succ_cons]
  | some d =>
    by_cases hd : d.key = v / 65536
    · simp [hd, List.set_cons_succ]
    · simp [hd, List.insertIdx_succ_cons]

theorem insert_eq_rec (b : Bitmap K) (v : Nat) :
    insert K b v = insertRec K (v / 65536) (v % 65536) b := by
  induction b with
  | nil => simp [insert, search, insertRec]
  | cons c cs ih =>
    unfold insertRec
    by_cases h1 : c.key < v / 65536
    · rw [insert_cons_lt K c cs v h1, ih]; simp [h1]
    · by_cases h2 : c.key = v / 65536
      · simp [insert, search, h1, h2, List.takeWhile_cons]
      · simp [insert, search, h1, h2, List.takeWhile_cons]

theorem mem_cElems (c : Container K) (x : Nat) (hw : ∀ l ∈ K.elems c.store, l < 65536) :
    x ∈ cElems K c ↔ x / 65536 = c.key ∧ x % 65536 ∈ K.elems c.store := by
  unfold cElems
  simp only [List.mem_map]
  constructor
  · rintro ⟨l, hl, rfl⟩
    have := hw l hl
    refine ⟨by omega, ?_⟩
    have : (c.key * 65536 + l) % 65536 = l := by omega
    rw [this]; exact hl
  · rintro ⟨h1, h2⟩
    exact ⟨x % 65536, h2, by omega⟩

/-- C01 `insert` case at the directory level: set semantics, return value, invariant — for *every* kernel. -/
theorem insertRec_spec (key index : Nat) (hk : key < 65536) (hi : index < 65536) :
    ∀ (b : Bitmap K), WF K b →
      WF K (insertRec K key index b).1 ∧
      (∀ y, y ∈ elems K (insertRec K key index b).1 ↔ y = key * 65536 + index ∨ y ∈ elems K b) ∧
      (insertRec K key index b).2 = !decide (key * 65536 + index ∈ elems K b) ∧
      (∀ k ∈ (insertRec K key index b).1.map (·.key), k = key ∨ k ∈ b.map (·.key)) := by
  intro b
  induction b with
  | nil =>
    intro _
    have hs := K.insert_spec K.empty index (Or.inr rfl) hi
    simp only [insertRec]
    refine ⟨⟨by simp [Sorted], ?_⟩, ?_, ?_, by simp⟩
    · intro c hc; simp at hc; subst hc; exact ⟨hk, hs.1⟩
    · intro y
      have hw := (K.wf_sorted _ hs.1).2.1
      simp only [elems, List.flatMap_cons, List.flatMap_nil, List.append_nil, List.not_mem_nil, or_false]
      rw [mem_cElems K _ y hw]
      simp only [hs.2.1, K.elems_empty, List.not_mem_nil, or_false]
      constructor
      · rintro ⟨h1, h2⟩; omega
      · intro h; subst h; constructor <;> omega
    · simp [elems, hs.2.2, K.elems_empty]
  | cons c cs ih =>
    intro hwf
    have hwf_cs : WF K cs := ⟨(List.pairwise_cons.mp hwf.1).2, fun d hd => hwf.2 d (List.mem_cons_of_mem _ hd)⟩
    have hc := hwf.2 c (List.mem_cons_self ..)
    have hcw := K.wf_sorted _ hc.2
    have hlt : ∀ d ∈ cs, c.key < d.key := by
      intro d hd
      exact (List.pairwise_cons.mp hwf.1).1 d.key (List.mem_map_of_mem hd)
    -- an element of `elems cs` has a high part > c.key
    have hcs_keys : ∀ y ∈ elems K cs, c.key < y / 65536 := by
      intro y hy
      simp only [elems, List.mem_flatMap] at hy
      obtain ⟨d, hd, hyd⟩ := hy
      have hdw := (K.wf_sorted _ (hwf.2 d (List.mem_cons_of_mem _ hd)).2).2.1
      rw [mem_cElems K d y hdw] at hyd
      have := hlt d hd; omega
    unfold insertRec
    by_cases h1 : c.key < key
    · simp only [h1, ↓reduceIte]
      obtain ⟨ihwf, ihmem, ihret, ihkeys⟩ := ih hwf_cs
      refine ⟨⟨?_, ?_⟩, ?_, ?_, ?_⟩
      · simp only [List.map_cons, Sorted, List.pairwise_cons]
        refine ⟨?_, ihwf.1⟩
        intro k hk'
        rcases ihkeys k hk' with h | h
        · omega
        · obtain ⟨d, hd, rfl⟩ := List.mem_map.mp h; exact hlt d hd
      · intro d hd
        rcases List.mem_cons.mp hd with h | h
        · subst h; exact hc
        · exact ihwf.2 d h
      · intro y
        simp only [elems, List.flatMap_cons, List.mem_append] at ihmem ⊢
        rw [ihmem y]
        constructor
        · rintro (h | h | h)
          · right; left; exact h
          · left; exact h
          · right; right; exact h
        · rintro (h | h | h)
          · right; left; exact h
          · left; exact h
          · right; right; exact h
      · rw [ihret]
        simp only [elems, List.flatMap_cons, List.mem_append]
        have : ¬ (key * 65536 + index ∈ cElems K c) := by
          rw [mem_cElems K c _ hcw.2.1]; intro ⟨h, _⟩; omega
        simp [this]
      · intro k hk'
        simp only [List.map_cons, List.mem_cons] at hk' ⊢
        rcases hk' with h | h
        · right; left; exact h
        · rcases ihkeys k h with h' | h'
          · left; exact h'
          · right; right; exact h'
    · simp only [h1, ↓reduceIte]
      by_cases h2 : c.key = key
      · subst h2
        simp only [↓reduceIte]
        have hs := K.insert_spec c.store index (Or.inl hc.2) hi
        have hsw := K.wf_sorted _ hs.1
        refine ⟨⟨?_, ?_⟩, ?_, ?_, ?_⟩
        · simpa using hwf.1
        · intro d hd
          rcases List.mem_cons.mp hd with h | h
          · subst h; exact ⟨hc.1, hs.1⟩
          · exact hwf.2 d (List.mem_cons_of_mem _ h)
        · intro y
          simp only [elems, List.flatMap_cons, List.mem_append]
          rw [mem_cElems K _ y hsw.2.1, mem_cElems K c y hcw.2.1]
          simp only [hs.2.1]
          constructor
          · rintro (⟨h, h' | h'⟩ | h)
            · left; omega
            · right; left; exact ⟨h, h'⟩
            · right; right; exact h
          · rintro (h | ⟨h, h'⟩ | h)
            · left; subst h; constructor
              · omega
              · left; omega
            · left; exact ⟨h, Or.inr h'⟩
            · right; exact h
        · rw [hs.2.2]
          have hnot : ¬ (c.key * 65536 + index ∈ List.flatMap (cElems K) cs) := by
            intro h; have := hcs_keys _ h; omega
          have hiff : (c.key * 65536 + index ∈ cElems K c) ↔ index ∈ K.elems c.store := by
            rw [mem_cElems K c _ hcw.2.1]
            have e1 : (c.key * 65536 + index) / 65536 = c.key := by omega
            have e2 : (c.key * 65536 + index) % 65536 = index := by omega
            rw [e1, e2]; simp
          simp only [elems, List.flatMap_cons, List.mem_append]
          simp [hnot, hiff]
        · intro k hk'; right; simpa using hk'
      · simp only [h2, ↓reduceIte]
        have h3 : key < c.key := by omega
        have hs := K.insert_spec K.empty index (Or.inr rfl) hi
        have hsw := K.wf_sorted _ hs.1
        refine ⟨⟨?_, ?_⟩, ?_, ?_, ?_⟩
        · have hs0 := hwf.1
          simp only [List.map_cons, Sorted, List.pairwise_cons] at hs0 ⊢
          refine ⟨?_, hs0⟩
          intro k hk'
          rcases List.mem_cons.mp hk' with h | h
          · omega
          · have := hs0.1 k h; omega
        · intro d hd
          rcases List.mem_cons.mp hd with h | h
          · subst h; exact ⟨hk, hs.1⟩
          · exact hwf.2 d h
        · intro y
          simp only [elems, List.flatMap_cons, List.mem_append]
          rw [mem_cElems K _ y hsw.2.1]
          simp only [hs.2.1, K.elems_empty, List.not_mem_nil, or_false]
          constructor
          · rintro (⟨h, h'⟩ | h)
            · left; omega
            · right; exact h
          · rintro (h | h)
            · left; subst h; constructor <;> omega
            · right; exact h
        · rw [hs.2.2]
          simp only [K.elems_empty, List.not_mem_nil, decide_false, Bool.not_false, elems, List.flatMap_cons,
            List.mem_append]
          have hnot1 : ¬ (key * 65536 + index ∈ cElems K c) := by
            rw [mem_cElems K c _ hcw.2.1]; intro ⟨h, _⟩; omega
          have hnot2 : ¬ (key * 65536 + index ∈ List.flatMap (cElems K) cs) := by
            intro h; have := hcs_keys _ h; omega
          simp [hnot1, hnot2]
        · intro k hk'
          simp only [List.map_cons, List.mem_cons] at hk' ⊢
          rcases hk' with h | h | h
          · left; exact h
          · right; left; exact h
          · right; right; exact h
end D
#print axioms D.insertRec_spec
#print axioms D.insert_eq_rec
