#!/usr/bin/env python3
"""C20 size extremes (implementation-only): statistics() / serialized_size() of the bitmap holding all 2^32 values (every
counter at its maximum: 65536 bitset chunks, 2^32 values in bitset chunks), of the same minus / plus one value, of 65536
array chunks, and of a mix with thousands of chunks of both kinds. Expectations are arithmetic (corpus/xlref.py for the mix)."""
import sys, os
sys.path.insert(0, os.path.join(os.path.dirname(os.path.abspath(__file__)), ".."))
import xlref as X

N = 1 << 32
full_ssz = 8 + 65536 * 8 + 65536 * 8192
print("case xl-stats-full")
print("full b0\nexpect ok")
print("stats b0\nexpect nc=65536 na=0 nr=0 nb=65536 va=0 vr=0 vb=%d card=%d min=0 max=%d ssz=%d" % (N, N, N - 1, full_ssz))
print("ser_size b0\nexpect %d" % full_ssz)
print("len b0\nexpect %d" % N)
print("remove b0 %d\nexpect true" % (N - 1))
print("stats b0\nexpect nc=65536 na=0 nr=0 nb=65536 va=0 vr=0 vb=%d card=%d min=0 max=%d ssz=%d" % (N - 1, N - 1, N - 2, full_ssz))
print("remove_range b0 in:65536 in:%d\nexpect %d" % (65536 + 65535 - 4096, 65536 - 4096))
# chunk 1 is now an array chunk of exactly 4096 values
ssz = 8 + 65536 * 8 + 65535 * 8192 + 2 * 4096
print("stats b0\nexpect nc=65536 na=1 nr=0 nb=65535 va=4096 vr=0 vb=%d card=%d min=0 max=%d ssz=%d"
      % (N - 1 - 65536, N - 1 - 65536 + 4096, N - 2, ssz))
print("new b1\nexpect ok\ninsert_range b1 un un\nexpect %d" % N)
print("stats b1\nexpect nc=65536 na=0 nr=0 nb=65536 va=0 vr=0 vb=%d card=%d min=0 max=%d ssz=%d" % (N, N, N - 1, full_ssz))

s = {k: ([k % 13, 40000 + k % 3] if k % 3 else list(range(100, 100 + 4097 + (k % 5)))) for k in range(0, 65536, 16)}
print("case xl-stats-4096-chunks-mixed")
print("new b0\nexpect ok")
for k in sorted(s):
    if len(s[k]) > 100:
        print("insert_range b0 in:%d in:%d\nexpect %d" % ((k << 16) + s[k][0], (k << 16) + s[k][-1], len(s[k])))
vals = " ".join(str((k << 16) | v) for k in sorted(s) if len(s[k]) < 100 for v in s[k])
print("extend b0 %s\nexpect ok" % vals)
print("stats b0\nexpect %s" % X.stats_line(s))
print("dump b0\nexpect %s" % X.dump_line(s))

s = {k: [k & 0xFF] for k in range(65536)}
print("case xl-stats-65536-array-chunks")
print("from_iter b0 %s\nexpect ok" % " ".join(str(v) for v in X.elems(s)))
print("stats b0\nexpect %s" % X.stats_line(s))
print("dump b0\nexpect %s" % X.dump_line(s))
