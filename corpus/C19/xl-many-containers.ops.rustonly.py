#!/usr/bin/env python3
"""C19 size extremes (implementation-only; the list model is quadratic in the number of chunks): values with 4095 .. 65536
chunks — header blocks of 4 bytes per chunk crossing 16 KiB / 32 KiB / 64 KiB / 256 KiB — through every delivery kind of
the Deserialize visitor, both formats, for both types. The property's expectation is the oracle (`eq=true`, same value);
the dump line comes from corpus/xlref.py."""
import sys, os
sys.path.insert(0, os.path.join(os.path.dirname(os.path.abspath(__file__)), ".."))
import xlref as X

for n in (4095, 4096, 4097, 8193, 16385, 65536):
    s = {k: ([k % 11] if k % 500 else [1, 2, 3]) for k in range(n)}
    vals = " ".join(str(v) for v in X.elems(s))
    print("case xl-serde-%d-chunks" % n)
    print("from_iter b0 %s\nexpect ok" % vals)
    print("dump b0\nexpect %s" % X.dump_line(s))
    b = X.encode_std(s)
    print("serde_events b0\nexpect calls=serialize_bytes %s same=true" % X.show_bytes(b))
    for fmt in ("json", "postcard"):
        print("serde_rt %s b0\nexpect ok eq=true" % fmt)
    for i, kind in enumerate(("seq", "bytes", "borrowed", "buf")):
        print("serde_visit %s b%d ser:b0\nexpect ok\neq b%d b0\nexpect true" % (kind, i + 1, i + 1))
    print("dump b1\nexpect %s" % X.dump_line(s))
    if n in (4096, 16385):
        # the same chunks as ONE partition of a treemap, next to a small partition
        print("tnew t0\nexpect ok\ntinsert t0 %d\nexpect true" % (7 << 32))
        print("textend t0 %s\nexpect ok" % " ".join(str((3 << 32) | v) for v in X.elems(s)))
        print("tlen t0\nexpect %d" % (X.card(s) + 1))
        for fmt in ("json", "postcard"):
            print("tserde_rt %s t0\nexpect ok eq=true" % fmt)
        print("tserde_visit seq t1 ser:t0\nexpect ok\nteq t1 t0\nexpect true")
