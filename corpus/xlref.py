"""Independent reference for the implementation-only size-extreme corpus cases (`*.ops.rustonly.py`).

Written from RoaringFormatSpec and the harness's output formats (harness/src/exec/ops32.rs: dump_set / dump_repr), not from
the crate and not from the Lean model: a third reading of the format next to Spec.encode (Lean) and gen/stream.rs (Rust).
A set of u32 is a dict {chunk key: sorted list of low 16-bit values}; a 64-bit set a dict {partition: such a dict}."""
import struct

M64 = (1 << 64) - 1
FNV_BASIS = 14695981039346656037
FNV_PRIME = 1099511628211


def fnv(values, h=FNV_BASIS):
    for x in values:
        h = ((h ^ x) * FNV_PRIME) & M64
    return h


def elems(s):
    for k in sorted(s):
        base = k << 16
        for v in s[k]:
            yield base | v


def card(s):
    return sum(len(v) for v in s.values())


def encode_std(s):
    """the run-free standard encoding (cookie 12346, offsets always present)"""
    keys = sorted(k for k in s if s[k])
    out = bytearray(struct.pack("<II", 12346, len(keys)))
    for k in keys:
        out += struct.pack("<HH", k, len(s[k]) - 1)
    off = len(out) + 4 * len(keys)
    for k in keys:
        out += struct.pack("<I", off)
        off += 2 * len(s[k]) if len(s[k]) <= 4096 else 8192
    for k in keys:
        out += payload(s[k])
    return bytes(out)


def payload(lows):
    if len(lows) <= 4096:
        return struct.pack("<%dH" % len(lows), *lows)
    words = [0] * 1024
    for v in lows:
        words[v >> 6] |= 1 << (v & 63)
    return struct.pack("<1024Q", *words)


def runs_of(lows):
    r, i = [], 0
    while i < len(lows):
        j = i
        while j + 1 < len(lows) and lows[j + 1] == lows[j] + 1:
            j += 1
        r.append((lows[i], j - i))
        i = j + 1
    return r


def encode_runcookie(s, run_keys=()):
    """cookie 12347 stream: chunks whose key is in run_keys are run containers (their maximal runs), the others array /
    bitset by cardinality; offsets present iff there are at least 4 chunks"""
    keys = sorted(k for k in s if s[k])
    n = len(keys)
    out = bytearray(struct.pack("<I", 12347 | ((n - 1) << 16)))
    flags = bytearray((n + 7) // 8)
    rk = set(run_keys)
    for i, k in enumerate(keys):
        if k in rk:
            flags[i >> 3] |= 1 << (i & 7)
    out += flags
    for k in keys:
        out += struct.pack("<HH", k, len(s[k]) - 1)
    bodies = []
    for k in keys:
        if k in rk:
            rs = runs_of(s[k])
            b = struct.pack("<H", len(rs)) + b"".join(struct.pack("<HH", a, l) for a, l in rs)
        else:
            b = payload(s[k])
        bodies.append(b)
    if n >= 4:
        off = len(out) + 4 * n
        for b in bodies:
            out += struct.pack("<I", off)
            off += len(b)
    for b in bodies:
        out += b
    return bytes(out)


def opt(x):
    return "none" if x is None else str(x)


def dump_set_line(s):
    n = card(s)
    es = elems(s)
    if n == 0:
        return "len=0 min=none max=none eh=%016x e=" % FNV_BASIS
    ks = sorted(k for k in s if s[k])
    mn = (ks[0] << 16) | s[ks[0]][0]
    mx = (ks[-1] << 16) | s[ks[-1]][-1]
    line = "len=%d min=%d max=%d eh=%016x" % (n, mn, mx, fnv(es))
    if n <= 32:
        line += " e=" + ",".join(str(x) for x in elems(s))
    return line


def dump_repr_line(s):
    ks = sorted(k for k in s if s[k])
    na = sum(1 for k in ks if len(s[k]) <= 4096)
    va = sum(len(s[k]) for k in ks if len(s[k]) <= 4096)
    vb = sum(len(s[k]) for k in ks if len(s[k]) > 4096)
    b = encode_std(s)
    if ks:
        mn = (ks[0] << 16) | s[ks[0]][0]
        mx = (ks[-1] << 16) | s[ks[-1]][-1]
    else:
        mn = mx = None
    return "nc=%d na=%d nb=%d va=%d vb=%d card=%d smin=%s smax=%s ssz=%d sh=%016x" % (
        len(ks), na, len(ks) - na, va, vb, va + vb, opt(mn), opt(mx), len(b), fnv(b))


def dump_line(s):
    return dump_set_line(s) + " | " + dump_repr_line(s)


def show_bytes(b):
    if len(b) <= 64:
        return "n=%d hex:%s" % (len(b), b.hex())
    return "n=%d sh=%016x" % (len(b), fnv(b))


def stats_line(s):
    ks = sorted(k for k in s if s[k])
    na = sum(1 for k in ks if len(s[k]) <= 4096)
    va = sum(len(s[k]) for k in ks if len(s[k]) <= 4096)
    vb = sum(len(s[k]) for k in ks if len(s[k]) > 4096)
    if ks:
        mn = (ks[0] << 16) | s[ks[0]][0]
        mx = (ks[-1] << 16) | s[ks[-1]][-1]
    else:
        mn = mx = None
    return "nc=%d na=%d nr=0 nb=%d va=%d vr=0 vb=%d card=%d min=%s max=%s ssz=%d" % (
        len(ks), na, len(ks) - na, va, vb, va + vb, opt(mn), opt(mx), len(encode_std(s)))
