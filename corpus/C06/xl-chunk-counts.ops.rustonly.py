#!/usr/bin/env python3
"""C06 size extremes (implementation-only: the list model needs minutes for 65536 chunks — it was run once on the first
case and agreed): conformant streams whose chunk COUNT sits at the limits of the count fields — all 65536 keys (the
largest count the 16-bit count field of the run cookie can express, (n-1) = 0xFFFF), one fewer, and counts around 4096 /
16384 (header fields of 4 bytes per chunk crossing 16 KiB / 64 KiB) — with the run cookie (one run chunk first / last, or
no run chunk at all) and with the plain cookie. Expectations: corpus/xlref.py."""
import sys, os
sys.path.insert(0, os.path.join(os.path.dirname(os.path.abspath(__file__)), ".."))
import xlref as X


def mkset(n, first_key=0):
    s = {}
    for i in range(n):
        k = first_key + i
        s[k] = [k % 7] if i % 1000 else [5, 6, 7, 9]
    return s


def case(name, s, data):
    h = "hex:" + data.hex()
    d = X.dump_line(s)
    print("case xl-" + name)
    print("new b0\ndeser chk b0 %s\nexpect ok rest=0 wf=true\ndump b0\nexpect %s" % (h, d))
    print("new b2\ndeser unchk b2 %s\nexpect ok rest=0\ndump b2\nexpect %s" % (h, d))
    print("eq b2 b0\nexpect true")
    print("ser b0\nexpect %s" % X.show_bytes(X.encode_std(s)))


for n in (65536, 65535, 4096, 4097, 16385):
    s = mkset(n, 0 if n != 65535 else 1)
    ks = sorted(s)
    case("runcookie-%d-firstrun" % n, s, X.encode_runcookie(s, [ks[0]]))
    if n in (65536, 4096):
        case("runcookie-%d-lastrun" % n, s, X.encode_runcookie(s, [ks[-1]]))
        case("runcookie-%d-norun" % n, s, X.encode_runcookie(s, []))
s = mkset(65536)
case("plaincookie-65536", s, X.encode_std(s))
