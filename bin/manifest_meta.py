HOOKS = {
    "guard": "roaring_verif",
    "enable": "RUSTFLAGS=\"--cfg roaring_verif\" cargo build (done by bin/check for the harness build of /repo/roaring)",
    "baseline_off_cmd": "cd /repo && cargo test --workspace --no-fail-fast --offline",
    "source_commits": ["df2eeb8"],
    "add_only": True,
}
NOT_YET = {}
NOTES = ("All checks are `bin/check <id>`: build harness against /repo's working tree (profiles chk = debug assertions + overflow "
         "checks, rel = release), build + audit the property's Lean theorems, run corpus + generated cases on implementation and "
         "model, diff the columns the property constrains, shrink and report. known_findings.json lists the genuine defects "
         "found (all repaired by 'fix:' commits in /repo). See DESIGN.md.")
