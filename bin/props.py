"""Per-property configuration of bin/check: generator profiles, compared columns, coverage rules."""
import hashlib, re

TRUSTED_BASE = [
    "Lean 4.33.0 kernel (thorough tier: re-checked with leanchecker); axioms limited to propext, Classical.choice, Quot.sound (verified per theorem by #print axioms on every run); no native_decide / bv_decide / implemented_by / added axioms / sorry",
    "the hand-written executable model RoaringModel/*.lean mirrors roaring-rs branch for branch; tie = this run's differential correspondence (harness on the real crate vs lean_exe driver on the same ops)",
    "Spec.lean (set operations on strictly ascending lists; reference codec) as the meaning of the property",
    "correspondence machinery: harness generators/executor, Lean driver parsing/printing, bin/check diff+shrink",
    "modelled, not verified: Rust integer/`as` semantics and the compiler, std Vec/slice/binary_search/BTreeMap/BinaryHeap/Peekable/sort, read_exact/write_all, byteorder, bytemuck, serde; 64-bit little-endian target",
]

ASSUMPTIONS = [
    "behaviours of the implementation not sampled by the generators agree with the model (the theorems are about the model)",
    "correspondence bounds: values <= 6 chunks / ~300k elements, histories <= 200 ops (DESIGN §6.2)",
]

MUTATORS = {"insert", "remove", "insert_range", "remove_range", "push", "append", "extend", "from_iter",
            "from_sorted", "clear", "remove_smallest", "remove_biggest"}

DUMP_RE = re.compile(r"len=(\d+) .*\| nc=(\d+) na=(\d+) nb=(\d+)")


class Stats:
    """Measured coverage of one run (goes into the evidence file)."""

    def __init__(self, pid):
        self.pid = pid
        self.ops = {}
        self.seen = set()
        self.nontrivial = set()
        self.trans = {"A->B": 0, "B->A": 0, "chunk+": 0, "chunk-": 0}
        self.tg = {t: 0 for t in PROPS[pid].get("targets", {})}
        self._samples = []
        self.maxlen = 0
        self.results = {}

    def add(self, case, mout):
        body = case[1:]
        h = hashlib.sha1("\n".join(body).encode()).hexdigest()
        nontriv = False
        prev = None
        for op, out in zip(body, mout[1:]):
            k = op.split(" ")[0]
            self.ops[k] = self.ops.get(k, 0) + 1
            m = DUMP_RE.search(out)
            if m:
                ln, nc, na, nb = map(int, m.groups())
                self.maxlen = max(self.maxlen, ln)
                if nb > 0 or nc >= 2:
                    nontriv = True
                if prev is not None:
                    pnc, pna, pnb = prev
                    if nc == pnc and nb > pnb:
                        self.trans["A->B"] += 1
                    if nc == pnc and nb < pnb:
                        self.trans["B->A"] += 1
                    if nc > pnc:
                        self.trans["chunk+"] += 1
                    if nc < pnc:
                        self.trans["chunk-"] += 1
                prev = (nc, na, nb)
            elif k not in ("dump", "dumpset") and len(out) < 24:
                key = k + "->" + re.sub(r"\d+", "N", out)
                self.results[key] = self.results.get(key, 0) + 1
            for t, rx in PROPS[self.pid].get("targets", {}).items():
                if re.search(rx, op + " => " + out):
                    self.tg[t] += 1
        extra = PROPS[self.pid].get("nontrivial")
        if extra is not None:
            nontriv = extra(body, mout[1:])
        if nontriv and h not in self.seen:
            self.nontrivial.add(h)
            if len(self._samples) < 2:
                self._samples.append({"ops": body[:12] + (["... (%d more ops)" % (len(body) - 12)] if len(body) > 12 else []),
                                      "model_out": mout[1:7]})
        self.seen.add(h)

    def distinct_nontrivial(self):
        return len(self.nontrivial)

    def distribution(self):
        res = dict(sorted(self.results.items(), key=lambda kv: -kv[1])[:60])
        return {"ops_by_kind": self.ops, "store_kind_transitions": self.trans, "distinct_cases": len(self.seen),
                "max_set_size": self.maxlen, "result_shapes": res}

    def targets(self):
        return {"hits": self.tg, "missed": [t for t, n in self.tg.items() if n == 0]}

    def samples(self):
        th = PROPS[self.pid].get("theorem_samples", [])
        return self._samples + th


SITE_NAMES = {
    0: "inherent.rs rank: containers.get_unchecked(i)",
    1: "scalar::or lhs[i]", 2: "scalar::or rhs[j]", 3: "scalar::and lhs[i]", 4: "scalar::and rhs[j]",
    5: "scalar::sub lhs[i]", 6: "scalar::sub rhs[j]", 7: "scalar::xor lhs[i]", 8: "scalar::xor rhs[j]",
    9: "ArrayStore::retain slice[pos]", 10: "from_lsb0_bytes_unchecked read_unaligned (needs 8192 bytes)",
    11: "from_lsb0_bytes_unchecked byte view of the word array", 12: "BitmapIter::advance_to bits[new_key]",
    13: "BitmapIter::advance_back_to bits[new_key]", 14: "BitmapIter::next bits[key]", 15: "BitmapIter::next_back bits[key_back]",
}


def collect_sites(acc, lines):
    """accumulate `sites=id:count:maxidx:minslack,...` records printed by the harness"""
    for ln in lines:
        m = re.search(r"sites=([0-9:,]+)", ln)
        if not m:
            continue
        for rec in m.group(1).split(","):
            f = rec.split(":")
            if len(f) != 4:
                continue
            i, c, mx, sl = map(int, f)
            a = acc.setdefault(i, [0, 0, 1 << 62])
            a[0] += c
            a[1] = max(a[1], mx)
            a[2] = min(a[2], sl)


def sites_summary(acc):
    return {"%d %s" % (i, SITE_NAMES.get(i, "?")): {"accesses": acc[i][0], "max_index": acc[i][1], "min_slack": acc[i][2]}
            for i in sorted(acc)} | {"never_hit": [SITE_NAMES[i] for i in SITE_NAMES if i not in acc]}


def only(*kinds):
    ks = set(kinds)
    return lambda op: op.split(" ")[0] in ks


RULE_SET = ("cases = corpus + seeded structured histories (harness gen, splitmix64 from VERIF_SEED and case index); "
            "a case is non-trivial if some dump shows a bitset chunk or >= 2 chunks; distinct by SHA-1 of its ops")

PROPS = {}


def _load():
    import importlib.util, os
    d = os.path.join(os.path.dirname(os.path.abspath(__file__)), "propcfg")
    for f in sorted(os.listdir(d)):
        if f.endswith(".py") and f[0] == "C":
            spec = importlib.util.spec_from_file_location("propcfg_" + f[:-3], os.path.join(d, f))
            m = importlib.util.module_from_spec(spec)
            spec.loader.exec_module(m)
            PROPS[f[:-3]] = m.CFG


_load()
