from props import RULE_SET, only  # noqa: F401

CFG = {
    "gen_profiles": ["C07"],
    "cases": {"quick": 300, "thorough": 3000},
    "compare": "set",
    "rule": RULE_SET + "; every case carries batches of len/is_empty/is_full/min/max/contains/rank/select/range_cardinality/contains_range queries at boundary arguments after mutation steps",
    "targets": {
        "select past the end": r"^select .*=> none",
        "select hit": r"^select .*=> \d+",
        "rank on bitset chunk": r"^rank ",
        "contains_range true on non-empty range": r"^contains_range b\d+ in:\d+ (in|ex):\d+ => true",
        "contains_range false": r"^contains_range .*=> false",
        "contains_range vacuous (empty range)": r"^contains_range b\d+ (in:(\d+) ex:\2|ex:(\d+) ex:\3|un ex:0|ex:4294967295 un) => true",
        "range_cardinality over several chunks": r"^range_cardinality b\d+ (un un|in:0 in:4294967295) => [1-9]",
        "range_cardinality zero": r"^range_cardinality .*=> 0",
        "is_full false": r"^is_full .*=> false",
    },
    "gaps": ["well-formedness of the value is a hypothesis: discharged for values produced by the mutators proved in C01 (producer table of C04)",
             "fidelity audit of the store kernels and 32-bit iterators (notes/fidelity-stores-iter32.md): ArrayStore / BitmapStore min, max, rank, select (word loop + clear-lowest-bit loop), contains, contains_range (len shortcut, single-word vs first/middle/last masks) were all found mirrored branch for branch (class M); nothing to switch",
             "fidelity audit (notes/fidelity-bitmap-core.md): all ten queries follow inherent.rs branch for branch; the one deviation (rank sums the chunks before the hit in reverse in its Ok arm, inherent.rs:700) is now mirrored by Bitmap.rankMirror, which the driver executes; rank_mirror_eq (unconditional) and C07_rank_mirror / C07_rank_select_mirror / C07_select_rank_mirror restate the theorems for it. RoaringBitmap::full() has a model definition (Bitmap.full) and C07_full (well-formed, is_full() = true, 2^32 elements) but is never executed by the driver"],
    "level_text": "Theorems (Lean 4, kernel-checked) that the model of len/is_empty/min/max/rank/select/range_cardinality/contains_range returns the order statistic of the sorted element list for every well-formed value and every argument; model tied to the Rust source by differential runs with boundary-biased query batches in two build profiles.",
    "level_note": "Trusted: Lean kernel; model mirrors code (checked on generated cases only); Spec.lean; std binary_search modelled by contract. is_full()=true and RoaringBitmap::full() are not executed on the Lean side (2^32 elements do not fit a list): covered by the theorem only. Missing theorems listed in evidence coverage.proof_gaps.",
}
