import re
from props import only  # noqa: F401

_PARTS2 = re.compile(r"parts=\[[^\]]*,")


def _nontrivial(body, outs):
    # a case is non-trivial if some tdump shows at least two partitions
    return any(_PARTS2.search(o) for o in outs)


CFG = {
    "gen_profiles": ["C10"],
    "cases": {"quick": 600, "thorough": 6000},
    "compare": "set",
    "nontrivial": _nontrivial,
    "rule": ("cases = corpus + seeded structured treemap histories (harness gen, splitmix64 from VERIF_SEED and case index); "
             "a case is non-trivial if some tdump shows >= 2 partitions; distinct by SHA-1 of its ops"),
    "targets": {
        "insert_range straddling 2^32": r"^tinsert_range t\d+ (in|ex):42949672[0-8]\d (in|ex):(4294967[3-9]\d\d|429[5-9]\d{6}) => [1-9]",
        "remove_range straddling 2^32": r"^tremove_range t\d+ (in|ex):42949672[0-8]\d (in|ex):(4294967[3-9]\d\d|429[5-9]\d{6}) => ",
        "range reaching u64::MAX": r"^t(insert|remove)_range t\d+ \S+ (un|in:18446744073709551615) => [1-9]",
        "empty or inverted range": r"^t(insert|remove)_range t\d+ (in:(\d+) ex:\3|ex:(\d+) ex:\4|un ex:0|ex:18446744073709551615 un) => 0",
        "push refused": r"^tpush .*=> false",
        "push accepted": r"^tpush .*=> true",
        "append rejected at 0": r"^tappend .*=> err 0",
        "append rejected in the middle": r"^tappend .*=> err [1-9]",
        "append accepted across a partition edge": r"^tappend t\d+ .*=> ok ([2-9]|10)",
        "partition u32::MAX present": r"parts=\[[^\]]*4294967295:",
        "absent partition between present ones": r"parts=\[([^\]]*,)?(0|1):\d+,(3|4|4294967295):",
        "three or more partitions": r"parts=\[[^\],]*,[^\],]*,",
        "u64::MAX argument": r" (in:|ex:)?18446744073709551615( |$)",
        "rank in an absent partition": r"^trank t\d+ 8589934597 ",
        "select lands in a higher partition": r"^tselect .* => \d{11,}",
        "select past the end": r"^tselect .* => none",
        "from_bitmaps": r"^tfrom_bitmaps ",
        "eq false": r"^teq .* => false",
        "whole set removed": r"^tremove_range .* => [1-9]\d*$",
    },
    "gaps": [
        "Kernel32 (the 32-bit refinement facts) is discharged: Treemap.kernel32 (Lemmas/TreemapKernel.lean) proves it for the mirrored 32-bit model with WF := Bitmap.WF from the core library (C01 mutators, C07 queries, RoaringBitmap::full()). Unconditional theorems (hypothesis: TWF t = keys strictly ascending u32, every partition Bitmap.WF and non-empty): insert, remove, contains, extend/from_iter, push, push_unchecked, insert_range (1, 2 and >= 3 partitions, whole middle partitions = RoaringBitmap::full()), remove_range, append/from_sorted_iter, from_bitmaps, clear/new, len, is_empty, min, max, rank, select, and the history induction C10_step / C10_run / C10_history over all of these (no panic in either build configuration; every returned value is the abstract one). The C10_*_partial forms (arbitrary Kernel32) are kept",
        "is_full and the derived == are now proved for every TWF treemap: C10_eq_iff (Treemap.eq a b = true <-> elems a = elems b, from Treemap.canonical over the 32-bit C04 results; C10_eq_iff_eq: == is structural equality of the model values), C10_isFull (= Spec.isFull u64Max (elems t)), C10_isFull_iff (is_full <-> exactly 2^32 partitions, each RoaringBitmap::is_full <-> 2^64 elements <-> every u64 is a member <-> contains(v) for every u64), C10_full (RoaringTreemap::full() is TWF, is_full, and == every TWF is_full value); is_full joined the Op64 alphabet of C10_step / C10_history. is_full = true and full() are never executed by the correspondence (2^32 full partitions)",
        "model fidelity (notes/fidelity-treemap.md): every function of treemap/inherent.rs, util.rs and the Extend/append/from_bitmaps part of iter.rs was compared branch by branch with the definition the driver executes - all mirrored (insert_range / remove_range partition loops, Entry flows, push / push_unchecked arms, rank / select accumulation); the delegating trait impls From<[u64; N]>, FromIterator<(u32, RoaringBitmap)>, IntoIterator for &RoaringTreemap got harness/driver ops (tfrom_arr, tcollect_bitmaps, tfor_ref; corpus/C10/trait-glue.ops)",
        "the model's insert_range counter is a Nat (the u64 counter of the code overflows only when all 2^64 values are new, see C16); insert_range over >= 2 whole partitions is proved but not executed by the correspondence (a 2^32-element value does not fit the list model)",
    ],
    "assumptions": [
        "treemap correspondence bounds: <= 5 partitions (keys 0,1,3,4,u32::MAX), ranges span <= ~70000 values and touch <= 2 partitions (remove_range may span more), never a whole partition",
    ],
    "level_text": "Theorems (Lean 4, kernel-checked, unconditional) that the model of every RoaringTreemap mutator and query (including is_full and ==) refines the abstract operation on strictly ascending lists of u64, for every well-formed treemap and every u64 argument, lifted to every finite history from new() — the partition directory (split/join at 2^32, sorted association list, partition creation/removal, RoaringBitmap::full() middle partitions) is proved here, the per-partition 32-bit facts come from the 32-bit core theorems (C01/C07); the model is tied to the Rust source by running both on the same generated histories in two build profiles.",
    "level_note": "Trusted: Lean kernel; the hand-written model mirrors treemap/inherent.rs (checked by correspondence on generated histories only); Spec.lean as the meaning of 'set of u64'; BTreeMap is modelled as a key-sorted association list. is_full = true / full() are proved but never executed (2^32 full partitions). Whole-partition insert_range is proved but not executed on the Lean side.",
}
