from props import RULE_SET, only  # noqa: F401

CFG = {
    "gen_profiles": ["C04", "C04T"],
    "cases": {"quick": 500, "thorough": 5000},
    "compare": "full",
    "rule": ("producer x producer: a target set (runs/singles over 1-3 chunks, chunk populations steered to 4094..4098) is built "
             "through two different construction histories; `eq` both ways is expected true (oracle line), both dumps are "
             "compared incl. representation (statistics, serialized size and byte hash); then a one-element difference must give "
             "`eq` = false. Non-trivial: a dump shows a bitset chunk or >= 2 chunks; distinct by SHA-1 of the ops"),
    "targets": {
        "chunk population exactly 4096": r"dump .*(va=4096 |vb=4096 |card=4096 )",
        "chunk population 4097 (bitset)": r"dump .*card=4097 ",
        "bitset chunk": r"dump .* nb=[1-9]",
        "two or more chunks": r"dump .* nc=[2-9]",
        "eq true": r"^eq .*=> true",
        "treemap eq true": r"^teq .*=> true",
        "treemap partition-wise construction with an empty bitmap": r"^tfrom_bitmaps ",
        "treemap multi-op with cancelled partition": r"^tmulti xor ",
        "eq false after one-element difference": r"^eq .*=> false",
    },
    "gaps": ["producer table (each producer returns a well-formed value): 32-bit — every mutator and history (C01_step/C01_history, used by C04_histories32), all binary operations (C02_all_forms), multi-ops (C09), from_lsb0_bytes (C17), both decoders on conformant input (C06) and the checked decoder on any accepted input (C13_32); 64-bit — mutators and histories (C10_step/C10_history, used by C04_histories64), from_bitmaps (C10_fromBitmaps), all binary operations (C11_all_forms), multi-ops (C11_multi), decoders (C06_t, C13_64)",
             "64-bit ==: mod.rs derive(PartialEq) over the BTreeMap is Treemap.eq (same length, pairwise equal keys and Bitmap.eq values - mirrored, notes/fidelity-treemap.md); C04_eq_iff_elems64 / C10_eq_iff prove it extensional for TWF treemaps",
             "fidelity audit (notes/fidelity-bitmap-core.md): `==` is now executed by the driver as Bitmap.eqMirror (RoaringModel/Mirror32.lean): Store::eq compares two bitsets through the cached len and the zipped value iterators (store/mod.rs:524-527), not word by word; Bitmap.eq_mirror_eq proves it equal to Bitmap.eq on stores satisfying their invariant (provided by Bitmap.WF) and C04_eqMirror_iff_elems restates the extensionality theorem for it; producer row full() added (C04_producer_full; never executed: 2^32 elements). The derived PartialEq of Container / Vec<Container> is modelled by contract (length + element-wise)",
             "clone/clone_from are the identity in the model (std Clone / Vec::clone_from / BTreeMap::clone_from trusted); exercised by the clone_from / tclone_from ops"],
    "level_text": "Canonical-form theorem (Lean 4, kernel-checked): two well-formed model values with the same elements are identical, hence `==`, serialized bytes and serialized_size agree for every pair of histories: every producer the property names has a well-formedness theorem for both types (mutators and histories C01/C10, set algebra C02/C11, multi-ops C09/C11, bit-slice import C17, decoders C06/C13, from_bitmaps, clone); the `==` proved about is the mirrored Store::eq (cached len + zipped values); the tie to the Rust code is the 12-producer x 12-producer differential (plus the treemap half) with `expect true` oracle lines.",
    "level_note": "Trusted: Lean kernel; model mirrors code (checked on generated cases only); `Bitmap.eq` as the model of the derived PartialEq/Store::eq; clone/clone_from are identity in the model (std Clone trusted).",
}
