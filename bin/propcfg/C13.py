import re
from props import only  # noqa: F401

RULE = ("cases = corpus (D6 reproducers) + seeded malformed streams: single-field corruptions of valid streams from the "
        "independent encoder (cookie, count, each key incl. duplicate/descending/swapped, each cardinality, run flags, "
        "offsets, array/bitset/run payload incl. zero runs and run overflow, truncation at/next to field boundaries, "
        "extension, bit flips) and short random byte strings; checked decoder only; on ok the harness evaluates every "
        "observer of the value (wf=), the model its WF predicate; non-trivial = any case whose stream has a run cookie or "
        "whose decode is accepted; distinct by SHA-1 of the ops. 64-bit half (profile C13T): corruptions of valid portable "
        "streams (count too small / too big / 2^63 / u64::MAX, keys swapped / duplicated / random, buckets reordered, empty "
        "inner bitmap replaced / added / with a duplicate key, one inner stream corrupted by the 32-bit corruptions, "
        "truncation, extension, bit flips) and random byte strings against RoaringTreemap::deserialize_from")


def oracle(op, impl, model):
    """Is the implementation's behaviour acceptable for C13 although it differs from the model?
    err is always allowed (a stricter decoder); ok only with a value all of whose observers agree (wf=true) and,
    when the model also accepts, the same number of unread bytes (never reads past the declared structure);
    panic, wf=false, or a different value (dump lines) never."""
    if not op.startswith(("deser", "tdeser")):
        return False
    if impl == "err":
        return True
    mi = re.match(r"ok rest=(\d+) wf=true$", impl)
    if not mi:
        return False
    mm = re.match(r"ok rest=(\d+) ", model)
    return (not mm) or mm.group(1) == mi.group(1)


CFG = {
    "gen_profiles": ["C13", "C13T"],
    "cases": {"quick": 2400, "thorough": 24000},
    "compare": "full",
    "oracle": oracle,
    "model_def": "Roaring.deserialize (lean/RoaringModel/Ser.lean: decodeHeader / decodeStore / deserializeG)",
    "rule": RULE,
    "nontrivial": lambda body, mout: any("hex:3b30" in op[:40] for op in body) or any(o.startswith("ok rest") for o in mout)
                  or any(op.startswith("note corruption=") and "cookie=run" in op for op in body),
    "targets": {
        "corrupted stream rejected": r"^deser chk .* => err$",
        "corrupted stream accepted as a well-formed value": r"^deser chk .* => ok rest=\d+ wf=true",
        "accepted although not conformant (lenient but harmless)": None,
        "cookie corruption": r"^note corruption=cookie ",
        "count corruption": r"^note corruption=count ",
        "key corruption (duplicate / descending / random)": r"^note corruption=key ",
        "neighbouring keys swapped": r"^note corruption=key-swap ",
        "cardinality corruption": r"^note corruption=card ",
        "run flag corruption": r"^note corruption=run-flags ",
        "offset corruption": r"^note corruption=offset ",
        "array payload corruption": r"^note corruption=array-payload ",
        "bitset payload corruption": r"^note corruption=bitset-payload ",
        "run payload corruption (zero runs, overflow, overlap, unsorted)": r"^note corruption=run-payload ",
        "truncation": r"^note corruption=truncated ",
        "extension": r"^note corruption=extended ",
        "random byte strings": r"^note random-bytes",
        "reference decoders reject": r"^spec_decode .* => err$",
        "64-bit: corrupted stream rejected": r"^tdeser chk .* => err$",
        "64-bit: corrupted stream accepted as a well-formed value": r"^tdeser chk .* => ok rest=\d+ wf=true",
        "64-bit: count too small (rest left unread)": r"^note corruption=count-small ",
        "64-bit: count larger than the data (incl. 2^63, u64::MAX)": r"^note corruption=count-big ",
        "64-bit: neighbouring keys swapped (descending)": r"^note corruption=key-swap ",
        "64-bit: duplicate key": r"^note corruption=key-dup ",
        "64-bit: key corruption": r"^note corruption=key ",
        "64-bit: buckets reordered": r"^note corruption=buckets-reordered ",
        "64-bit: empty inner bitmap (replaced / added / duplicate key)": r"^note corruption=empty-bucket-",
        "64-bit: inner stream corrupted (32-bit corruptions)": r"^note corruption=inner ",
        "64-bit: truncation": r"^note corruption=truncated of parts=",
        "64-bit: extension": r"^note corruption=extended of parts=",
        "64-bit: reference decoders reject": r"^tspec_decode .* => err$",
    },
    "gaps": [
        'C13_no_panic and C13_reads_declared (rest is a suffix, value independent of it, shorter input is EOF) are proved in full for every byte string',
        'no proof gap: C13_32 (ok => Bitmap.WF value and rest is a suffix; error => not a panic) is proved unconditionally for every byte string; the former kernel hypothesis Kernel.runStore_wf is discharged (Lemmas/CodecKernel.lean: runStore_wf, from Store.insertRange_spec and Container.ensureCorrectStore_spec; an empty run list gives the empty array, which the checked decoder rejects); C13_reserialize: an accepted value has a strictly ascending u32 element list with chunk-wise membership and re-serialises to a stream that every decoder configuration decodes to the same value',
        "the corollary 'every observer of a WF value is consistent' rests on C01/C03/C04/C07 (other families)",
        'RoaringTreemap::deserialize_from, no proof gap: C13_t_no_panic, C13_t_reads_declared, the lifting step C13_64_lift (if the checked 32-bit decoder only returns wf32 values, the checked treemap decoder only returns values with strictly ascending u32 keys whose partitions are wf32 and not the empty bitmap, the rest is a suffix, no panic) and the full statement C13_64 (ok => Treemap.WFd Bitmap.WF value (Treemap.TWF: keys strictly ascending u32s, every partition Bitmap.WF and non-empty) and rest is a suffix; error => not a panic; C13_64_statement_holds) are proved unconditionally for every byte string (the inherited 32-bit hypothesis Kernel.runStore_wf is discharged); C13_t_reserialize: an accepted treemap has a strictly ascending u64 element list with partition-wise membership and re-serialises to a stream that every decoder configuration decodes to the same value. The loop counter is the declared u64 count itself (structural recursion, no fuel): a count larger than the data ends in eof',
        'accepted-but-not-conformant 64-bit streams (descending / repeated bucket keys: the map sorts them, a repeated key keeps the later bucket) yield well-formed values; C13 allows that outcome, it is pinned in corpus/C13/t-key-order.ops',
        'model-fidelity audit (notes/fidelity-codecs.md): the checked decoders (32-bit: post-validation `any(is_empty)` then `windows(2)` on keys; 64-bit: u64 count loop, empty buckets skipped, repeated key replaces) are classified M (mirrored); no simplification found',
    ],
    "level_text": "Lean 4 theorems over the model of the checked decoder: for every byte string the result is an error or a "
                  "well-formed value together with a suffix of the input (never a panic, never a read past the declared "
                  "structure); tied to the Rust source by differential correspondence on single-field corruptions of valid "
                  "streams and random byte strings, with a property oracle that tolerates a stricter implementation.",
    "level_note": "Trusted: Lean kernel; Bitmap.WF (Inv.lean) as the meaning of 'well-formed set'; model mirrors "
                  "serialization.rs (correspondence only); the harness-side observer check `consistent()` as the reading of "
                  "'every observer agrees'.",
}
CFG["targets"] = {k: v for k, v in CFG["targets"].items() if v}
