from props import only  # noqa: F401

RULE = ("cases = corpus (both upstream golden files, D3 reproducer) + seeded conformant streams from an independent Rust "
        "encoder written from the format spec: 0-6 chunks, both cookies, with/without offset header, per-chunk run vs "
        "array/bitset, 13 chunk shapes incl. sum(len-1) <= 4096 < cardinality, 4095/4096/4097, full chunk, adjacent runs; "
        "each decoded by both decoders, by Lean Spec.decode and by the Rust reference decoder, compared with the natively "
        "built set; non-trivial = run cookie, or a bitset chunk, or >= 2 chunks; distinct by SHA-1 of the ops")

CFG = {
    "gen_profiles": ["C06"],
    "cases": {"quick": 800, "thorough": 8000},
    "compare": "full",
    "rule": RULE,
    "nontrivial": lambda body, mout: any("hex:3b30" in op[:40] for op in body) or any((" nb=" in o and " nb=0 " not in o) for o in mout),
    "targets": {
        "no-run cookie": r"^deser chk b\d+ hex:3a30.* => ok",
        "run cookie, < 4 chunks: no offset header": r"^note cookie=run offsets=no",
        "run cookie, >= 4 chunks: offset header": r"^note cookie=run offsets=yes",
        "run cookie with zero run chunks": r"^note cookie=run [^R]*$",
        "run chunk with sum(len-1) <= 4096 < cardinality (D3 shape)": r"^note .*\[runs-sum<=4096<card/R/",
        "run chunk decoded into a bitset store first (long runs)": r"^note .*\[long-runs/R/",
        "run chunk of many 1-runs": r"^note .*\[many-1-runs/R/",
        "single full run 0..=65535": r"^note .*\[full/R/65536\]",
        "array chunk of exactly 4096 / bitset chunk of 4097": r"^note .*/A/4096\]|^note .*/B/4097\]",
        "empty stream (0 chunks)": r"^note cookie=norun offsets=\w+ n=0 ",
        "trailing bytes left unread": r"^deser chk .* => ok rest=[1-9]",
        "== natively built set": r"^eq b0 b1 => true",
        "unchecked decoder agrees": r"^eq b2 b0 => true",
        "both reference decoders accept": r"^spec_decode .* => ok ",
        "golden file without runs: Spec.decode gives the documented set and Spec.encode reproduces the file": r"^spec_decode .* => ok len=200100 eh=2caf1734041d0c65 rest=0 same=true",
        "golden file with runs: Spec.decode gives the documented set": r"^spec_decode hex:3b30.* => ok len=200100 eh=2caf1734041d0c65 rest=0 same=false",
    },
    "gaps": [
        'no proof gap: the full statement is proved (C06 : C06_statement): for every byte string bs (all entries < 256) with Spec.decode bs = some (S, rest), deserialize chk dbg bs = ok (b, rest) for both decoders and both build configurations, with Bitmap.WF b and elems b = S; covers both cookies, streams with and without offset header, array / bitset / run chunks in any position (Lemmas/DecodeSpec.lean: decodeHeader_spec, decodeContainers_spec, decodeStore_spec; run chunks via Store.insertRange_spec + Container.ensureCorrectStore_spec)',
        'corollaries: C06_unique / C06_agree (the result is the canonical representation of S, all four decoder configurations agree), C06_standard (decoders invert Spec.encode), C06_checked_wf',
        'the byte-string hypothesis (entries < 256) is needed only because the model represents bytes as Nat: with an entry 256 both little-endian readers produce the chunk key 65536 (example in Props/C06.lean); it is not a restriction on real inputs',
        'the 64-bit portable format is handled by the treemap family',
    ],
    "level_text": "Lean 4 theorem that every stream accepted by the strict reference decoder Spec.decode (written from the "
                  "format specification, cross-validated against the upstream golden files and an independent Rust "
                  "reference codec on every run) is decoded by the model of both decoders to a well-formed value with "
                  "exactly that set; model tied to the Rust source by differential correspondence on conformant streams "
                  "from an independent encoder.",
    "level_note": "Trusted: Lean kernel; SpecCodec.lean as the reading of RoaringFormatSpec (adjacent runs accepted, declared "
                  "cardinalities and offsets must be exact); model mirrors serialization.rs (correspondence only). "
                  "32-bit half only.",
}
