from props import only  # noqa: F401

RULE = ("cases = corpus (both upstream golden files, D3 reproducer) + seeded conformant streams from an independent Rust "
        "encoder written from the format spec: 0-6 chunks, both cookies, with/without offset header, per-chunk run vs "
        "array/bitset, 13 chunk shapes incl. sum(len-1) <= 4096 < cardinality, 4095/4096/4097, full chunk, adjacent runs; "
        "each decoded by both decoders, by Lean Spec.decode and by the Rust reference decoder, compared with the natively "
        "built set; non-trivial = run cookie, or a bitset chunk, or >= 2 chunks; distinct by SHA-1 of the ops. 64-bit half (profile C06T): conformant portable streams from an independent "
        "encoder (0-4 ascending buckets, keys from {0,1,3,4,2^32-1}, inner streams from the 32-bit encoder incl. run "
        "chunks and both headers, sometimes an empty bucket) through both decoders, Lean Spec.decode64 and the Rust "
        "reference decoder; teq against the natively built treemap with expect true; non-trivial = some inner run "
        "cookie or >= 2 buckets")

CFG = {
    "gen_profiles": ["C06", "C06T"],
    "cases": {"quick": 1600, "thorough": 16000},
    "compare": "full",
    "rule": RULE,
    "nontrivial": lambda body, mout: any("hex:3b30" in op[:40] for op in body) or any((" nb=" in o and " nb=0 " not in o) for o in mout)
                  or any(op.startswith("note parts=") and ("cookie=run" in op or not op.startswith(("note parts=0", "note parts=1"))) for op in body),
    "targets": {
        "no-run cookie": r"^deser chk b\d+ hex:3a30.* => ok",
        "run cookie, < 4 chunks: no offset header": r"^note cookie=run offsets=no",
        "run cookie, >= 4 chunks: offset header": r"^note cookie=run offsets=yes",
        "run cookie with zero run chunks": r"^note cookie=run [^R]*$",
        "run chunk with sum(len-1) <= 4096 < cardinality (D3 shape)": r"^note .*\[runs-sum<=4096<card/R/",
        "run chunk decoded into a bitset store first (long runs)": r"^note .*\[long-runs/R/",
        "run chunk of many 1-runs": r"^note .*\[many-1-runs/R/",
        "single full run 0..=65535": r"^note .*\[full/R/65536\]",
        "array chunk of exactly 4096 / bitset chunk of 4097": r"^note .*/A/4096\]|^note .*/B/4097\]",
        "empty stream (0 chunks)": r"^note cookie=norun offsets=\w+ n=0 ",
        "trailing bytes left unread": r"^deser chk .* => ok rest=[1-9]",
        "== natively built set": r"^eq b0 b1 => true",
        "unchecked decoder agrees": r"^eq b2 b0 => true",
        "both reference decoders accept": r"^spec_decode .* => ok ",
        "64-bit: conformant stream with >= 2 buckets": r"^note parts=[2-4] ",
        "64-bit: zero buckets": r"^note parts=0 ",
        "64-bit: empty bucket inside a conformant stream": r"^note parts=.*empty-bucket",
        "64-bit: inner stream with run cookie / without offsets": r"^note parts=.*cookie=run,offsets=no",
        "64-bit: inner bitset chunk": r"^note parts=.*/B/",
        "64-bit: bucket key u32::MAX": r"^note parts=.*key=4294967295 ",
        "64-bit: == natively built treemap": r"^teq t0 t1 => true",
        "64-bit: unchecked decoder agrees": r"^teq t2 t0 => true",
        "64-bit: both reference decoders accept": r"^tspec_decode .* => ok ",
        "64-bit: trailing bytes left unread": r"^tdeser chk .* => ok rest=[1-9]",
        "golden file without runs: Spec.decode gives the documented set and Spec.encode reproduces the file": r"^spec_decode .* => ok len=200100 eh=2caf1734041d0c65 rest=0 same=true",
        "golden file with runs: Spec.decode gives the documented set": r"^spec_decode hex:3b30.* => ok len=200100 eh=2caf1734041d0c65 rest=0 same=false",
    },
    "gaps": [
        'no proof gap: the full statement is proved (C06 : C06_statement): for every byte string bs (all entries < 256) with Spec.decode bs = some (S, rest), deserialize chk dbg bs = ok (b, rest) for both decoders and both build configurations, with Bitmap.WF b and elems b = S; covers both cookies, streams with and without offset header, array / bitset / run chunks in any position (Lemmas/DecodeSpec.lean: decodeHeader_spec, decodeContainers_spec, decodeStore_spec; run chunks via Store.insertRange_spec + Container.ensureCorrectStore_spec)',
        'corollaries: C06_unique / C06_agree (the result is the canonical representation of S, all four decoder configurations agree), C06_standard (decoders invert Spec.encode), C06_checked_wf',
        'the byte-string hypothesis (entries < 256) is needed only because the model represents bytes as Nat: with an entry 256 both little-endian readers produce the chunk key 65536 (example in Props/C06.lean); it is not a restriction on real inputs',
        '64-bit portable format, no proof gap: the full statement is proved (C06_t : C06_t_statement): for every byte string bs (all entries < 256) with Spec.decode64 bs = some (S, rest), Treemap.deserialize chk dbg bs = ok (t, rest) for both decoders and both build configurations, with Treemap.WFd Bitmap.WF t (Treemap.TWF) and Treemap.elems t = S; the 32-bit C06 is lifted through the bucket loop (Lemmas/TreemapCodecWF.lean: decodeBuckets_spec, decode64_spec), so inner run chunks, offset-less inner headers and empty buckets are covered',
        '64-bit corollaries: C06_t_sorted (the set of an accepted stream is strictly ascending and inside u64), C06_t_unique / C06_t_agree (the result is the canonical treemap of S, all four decoder configurations agree), C06_t_standard (the decoders invert Spec.encode64, arbitrary trailing bytes) and C06_t_checked_wf are unconditional (the former C06_t_standard_partial / C06_t_checked_wf_partial with the 32-bit kernel hypotheses are gone)',
        'model-fidelity audit (notes/fidelity-codecs.md): deserialize_from_impl (cookie match, run bitmap read before the size test, description / offset bytes, per-container loop with run / array / bitset arms, `Σ len` capacity, checked_add, ensure_correct_store for run chunks only, checked vs unchecked constructors) and the treemap bucket loop are classified M (mirrored); no simplification found in the decoder path',
    ],
    "level_text": "Lean 4 theorem that every stream accepted by the strict reference decoder Spec.decode (written from the "
                  "format specification, cross-validated against the upstream golden files and an independent Rust "
                  "reference codec on every run) is decoded by the model of both decoders to a well-formed value with "
                  "exactly that set; model tied to the Rust source by differential correspondence on conformant streams "
                  "from an independent encoder.",
    "level_note": "Trusted: Lean kernel; SpecCodec.lean as the reading of RoaringFormatSpec (adjacent runs accepted, declared "
                  "cardinalities and offsets must be exact); model mirrors serialization.rs (correspondence only). Partial: "
                  "see proof_gaps.",
}
