from props import only  # noqa: F401

RULE = ("cases = corpus + seeded cases (harness gen, splitmix64 from VERIF_SEED and case index): values from C01-style "
        "mutation histories (with 4096 steering), from decoded conformant streams, and tiny/empty sets; each followed by "
        "ser / ser_size / spec_encode (independent Rust reference encoder vs Lean Spec.encode vs crate) and a decode of "
        "the crate's own bytes with both decoders; non-trivial = some dump shows a bitset chunk or >= 2 chunks; "
        "distinct by SHA-1 of the ops")

CFG = {
    "gen_profiles": ["C05"],
    "cases": {"quick": 400, "thorough": 4000},
    "compare": "full",
    "rule": RULE,
    "targets": {
        "serialisation of the empty bitmap": r"^ser b\d+ => n=8 hex:3a30000000000000$",
        "short serialisation compared byte for byte": r"^ser b\d+ => n=\d+ hex:3a30",
        "long serialisation compared by hash": r"^ser b\d+ => n=\d+ sh=",
        "bitset chunk serialised (>= 8 KiB)": r"^ser_size b\d+ => (8[2-9]\d\d|9\d\d\d|\d{5,})$",
        "chunk population exactly 4096 (largest array)": r"^dump .*va=4096 |card=4096 ",
        "chunk population exactly 4097 (smallest bitset)": r"^dump .* nb=1 .*vb=4097 ",
        "checked decode of own bytes": r"^deser_prefix chk .* => ok rest=0 eq=true",
        "unchecked decode of own bytes": r"^deser_prefix unchk .* => ok rest=0 eq=true",
        "value obtained from a run-encoded stream": r"^deser chk b\d+ hex:3b30.* => ok",
    },
    "gaps": [
        'no proof gap: C05_size, C05_decode (round trip through both decoders, both build configurations, with arbitrary trailing bytes), C05_bytes (serialize b = Spec.encode (elems b)), C05_deterministic (+ C05_deterministic_repr via Bitmap.canonical, C05_injective), C05_conformant (the strict reference decoder Spec.decode accepts the output and reads back elems b; offsets are the true payload positions) and C05_is_bytes are proved unconditionally for Bitmap.WF values (the shared invariant of Inv.lean)',
        'the former kernel hypothesis Kernel.bitmap_toArray is discharged (Lemmas/CodecKernel.lean: bitmap_toArray, from BStore.length_toArray / toArray_lt / toArrayFrom_cons of the shared BitmapStore library)',
        'the local BitmapWF / StoreWF of Lemmas/CodecWF.lean are proved equivalent to the shared Bitmap.WF / Store.WF (bitmapWF_iff, storeWF_iff); the producer theorems (every API-built value is WF) belong to C01/C02/C04',
        'C05_offsets (i-th offset = position of chunk i payload) is part of C05_conformant (Spec.decode checks every offset against the true position)',
        'the 64-bit (RoaringTreemap) half is handled by the treemap family',
    ],
    "level_text": "Lean 4 theorems over the executable model of serialize_into / serialized_size / both decoders: size law, "
                  "equality with an independent reference encoder written from the format specification (Spec.encode, "
                  "cross-validated on every run against the two upstream golden files and an independent Rust reference "
                  "codec), decode-after-encode round trip; the model is tied to the Rust source by differential "
                  "correspondence on generated values in two build profiles.",
    "level_note": "Trusted: Lean kernel; SpecCodec.lean as the reading of RoaringFormatSpec (run-free encoder); the model "
                  "mirrors serialization.rs (checked by correspondence only); byteorder/Write::write_all modelled by their "
                  "contracts. 32-bit half only.",
}
