import re
from props import only  # noqa: F401

# default rule (a dump shows a bitset chunk or >= 2 chunks) + 64-bit: a tdump shows >= 2 partitions
_NT = re.compile(r"\| nc=\d+ na=\d+ nb=[1-9]|\| nc=([2-9]|\d\d+) |\| parts=\[[^\]]*,")

RULE = ("cases = corpus + seeded cases (harness gen, splitmix64 from VERIF_SEED and case index): values from C01-style "
        "mutation histories (with 4096 steering), from decoded conformant streams, and tiny/empty sets; each followed by "
        "ser / ser_size / spec_encode (independent Rust reference encoder vs Lean Spec.encode vs crate) and a decode of "
        "the crate's own bytes with both decoders; non-trivial = some dump shows a bitset chunk or >= 2 chunks; "
        "distinct by SHA-1 of the ops. 64-bit half (profile C05T): treemaps with 0-4 partitions (keys from {0,1,3,4,2^32-1}) "
        "from short histories or decoded conformant portable streams; tser / tser_size / tspec_encode (independent Rust "
        "encoder vs Lean Spec.encode64 vs crate), decode of own bytes with both decoders, teq + expect true; non-trivial = "
        ">= 2 partitions")

CFG = {
    "gen_profiles": ["C05", "C05T"],
    "cases": {"quick": 800, "thorough": 8000},
    "nontrivial": lambda body, mout: any(_NT.search(o) for o in mout),
    "compare": "full",
    "rule": RULE,
    "targets": {
        "serialisation of the empty bitmap": r"^ser b\d+ => n=8 hex:3a30000000000000$",
        "short serialisation compared byte for byte": r"^ser b\d+ => n=\d+ hex:3a30",
        "long serialisation compared by hash": r"^ser b\d+ => n=\d+ sh=",
        "bitset chunk serialised (>= 8 KiB)": r"^ser_size b\d+ => (8[2-9]\d\d|9\d\d\d|\d{5,})$",
        "chunk population exactly 4096 (largest array)": r"^dump .*va=4096 |card=4096 ",
        "chunk population exactly 4097 (smallest bitset)": r"^dump .* nb=1 .*vb=4097 ",
        "checked decode of own bytes": r"^deser_prefix chk .* => ok rest=0 eq=true",
        "unchecked decode of own bytes": r"^deser_prefix unchk .* => ok rest=0 eq=true",
        "value obtained from a run-encoded stream": r"^deser chk b\d+ hex:3b30.* => ok",
        "64-bit: serialisation of the empty treemap": r"^tser t\d+ => n=8 hex:0000000000000000$",
        "64-bit: short serialisation compared byte for byte": r"^tser t\d+ => n=\d+ hex:0[1-4]00000000000000",
        "64-bit: long serialisation compared by hash": r"^tser t\d+ => n=\d+ sh=",
        "64-bit: size of a value with >= 3 partitions": r"^tdump .*parts=\[[^\]]*,[^\]]*,",
        "64-bit: partition key u32::MAX": r"^tdump .*parts=\[[^\]]*4294967295:",
        "64-bit: partition with a bitset chunk (> 8 KiB)": r"^tser_size t\d+ => (8[2-9]\d\d|9\d\d\d|\d{5,})$",
        "64-bit: checked decode of own bytes": r"^tdeser_prefix chk .* => ok rest=0 eq=true",
        "64-bit: unchecked decode of own bytes": r"^tdeser_prefix unchk .* => ok rest=0 eq=true",
        "64-bit: value decoded from a stream with an empty bucket": r"^note parts=.*empty-bucket",
    },
    "gaps": [
        'C05_size, C05_decode (round trip through both decoders, both build configurations, with arbitrary trailing bytes) are proved in full for BitmapWF values',
        "C05_bytes_partial / C05_deterministic_partial: serialize b = Spec.encode (elems b) is proved modulo ONE named kernel hypothesis, Kernel.bitmap_toArray (for a well-formed bitset chunk, to_array_store's listing has len values < 65536 that re-assemble into the stored words); header, descriptors, offsets, array payloads, chunk keys and chunk grouping of elems are proved. The hypothesis belongs to the BitmapStore lemma library (coordinator) and is exercised at run time by the driver's !SPEC cross-check on every `ser`",
        'BitmapWF is a local definition (Lemmas/CodecWF.lean) mirroring bitmapWF of Driver/Core.lean; the producer theorems (every API-built value is WF) belong to C01/C02/C04',
        "C05_offsets (i-th offset = position of chunk i's payload) is implied by C05_bytes + Spec.decode's offset check but not stated separately",
        '64-bit half (RoaringTreemap): C05_t_size, C05_t_framing (u64 count, strictly ascending u32 keys, each followed by the 32-bit stream), C05_t_decode / C05_t_decode_eq (both decoders, both build configurations, arbitrary trailing bytes) are proved in full for TreemapWF values (= Treemap.SerWF BitmapWF: strictly ascending u32 keys, every partition BitmapWF and not the empty bitmap; implied by the directory invariant Treemap.WFd), lifted from the 32-bit theorems through the bucket loop (Lemmas/TreemapCodec.lean)',
        'C05_t_bytes_partial / C05_t_deterministic_partial: Treemap.serialize t = Spec.encode64 (Treemap.elems t) inherits the 32-bit hypothesis Kernel.bitmap_toArray and adds none (bucket keys = distinct high halves, bucket contents = low halves: Lemmas/TreemapEncodeSpec.lean)',
    ],
    "level_text": "Lean 4 theorems over the executable model of serialize_into / serialized_size / both decoders: size law, "
                  "equality with an independent reference encoder written from the format specification (Spec.encode, "
                  "cross-validated on every run against the two upstream golden files and an independent Rust reference "
                  "codec), decode-after-encode round trip; the model is tied to the Rust source by differential "
                  "correspondence on generated values in two build profiles.",
    "level_note": "Trusted: Lean kernel; SpecCodec.lean as the reading of RoaringFormatSpec (run-free encoder); the model "
                  "mirrors serialization.rs (checked by correspondence only); byteorder/Write::write_all modelled by their "
                  "contracts. Partial theorems are listed in evidence.partial_theorems / proof_gaps.",
}
