import re
from props import only  # noqa: F401

# default rule (a dump shows a bitset chunk or >= 2 chunks) + 64-bit: a tdump shows >= 2 partitions
_NT = re.compile(r"\| nc=\d+ na=\d+ nb=[1-9]|\| nc=([2-9]|\d\d+) |\| parts=\[[^\]]*,")

RULE = ("cases = corpus + seeded cases (harness gen, splitmix64 from VERIF_SEED and case index): values from C01-style "
        "mutation histories (with 4096 steering), from decoded conformant streams, and tiny/empty sets; each followed by "
        "ser / ser_size / spec_encode (independent Rust reference encoder vs Lean Spec.encode vs crate) and a decode of "
        "the crate's own bytes with both decoders; non-trivial = some dump shows a bitset chunk or >= 2 chunks; "
        "distinct by SHA-1 of the ops. 64-bit half (profile C05T): treemaps with 0-4 partitions (keys from {0,1,3,4,2^32-1}) "
        "from short histories or decoded conformant portable streams; tser / tser_size / tspec_encode (independent Rust "
        "encoder vs Lean Spec.encode64 vs crate), decode of own bytes with both decoders, teq + expect true; non-trivial = "
        ">= 2 partitions")

CFG = {
    "gen_profiles": ["C05", "C05T"],
    "cases": {"quick": 800, "thorough": 8000},
    "nontrivial": lambda body, mout: any(_NT.search(o) for o in mout),
    "compare": "full",
    "rule": RULE,
    "targets": {
        "serialisation of the empty bitmap": r"^ser b\d+ => n=8 hex:3a30000000000000$",
        "short serialisation compared byte for byte": r"^ser b\d+ => n=\d+ hex:3a30",
        "long serialisation compared by hash": r"^ser b\d+ => n=\d+ sh=",
        "bitset chunk serialised (>= 8 KiB)": r"^ser_size b\d+ => (8[2-9]\d\d|9\d\d\d|\d{5,})$",
        "chunk population exactly 4096 (largest array)": r"^dump .*va=4096 |card=4096 ",
        "chunk population exactly 4097 (smallest bitset)": r"^dump .* nb=1 .*vb=4097 ",
        "checked decode of own bytes": r"^deser_prefix chk .* => ok rest=0 eq=true",
        "unchecked decode of own bytes": r"^deser_prefix unchk .* => ok rest=0 eq=true",
        "value obtained from a run-encoded stream": r"^deser chk b\d+ hex:3b30.* => ok",
        "64-bit: serialisation of the empty treemap": r"^tser t\d+ => n=8 hex:0000000000000000$",
        "64-bit: short serialisation compared byte for byte": r"^tser t\d+ => n=\d+ hex:0[1-4]00000000000000",
        "64-bit: long serialisation compared by hash": r"^tser t\d+ => n=\d+ sh=",
        "64-bit: size of a value with >= 3 partitions": r"^tdump .*parts=\[[^\]]*,[^\]]*,",
        "64-bit: partition key u32::MAX": r"^tdump .*parts=\[[^\]]*4294967295:",
        "64-bit: partition with a bitset chunk (> 8 KiB)": r"^tser_size t\d+ => (8[2-9]\d\d|9\d\d\d|\d{5,})$",
        "64-bit: checked decode of own bytes": r"^tdeser_prefix chk .* => ok rest=0 eq=true",
        "64-bit: unchecked decode of own bytes": r"^tdeser_prefix unchk .* => ok rest=0 eq=true",
        "64-bit: value decoded from a stream with an empty bucket": r"^note parts=.*empty-bucket",
    },
    "gaps": [
        'no proof gap: C05_size, C05_decode (round trip through both decoders, both build configurations, with arbitrary trailing bytes), C05_bytes (serialize b = Spec.encode (elems b)), C05_deterministic (+ C05_deterministic_repr via Bitmap.canonical, C05_injective), C05_conformant (the strict reference decoder Spec.decode accepts the output and reads back elems b; offsets are the true payload positions) and C05_is_bytes are proved unconditionally for Bitmap.WF values (the shared invariant of Inv.lean)',
        'the former kernel hypothesis Kernel.bitmap_toArray is discharged (Lemmas/CodecKernel.lean: bitmap_toArray, from BStore.length_toArray / toArray_lt / toArrayFrom_cons of the shared BitmapStore library)',
        'the local BitmapWF / StoreWF of Lemmas/CodecWF.lean are proved equivalent to the shared Bitmap.WF / Store.WF (bitmapWF_iff, storeWF_iff); the producer theorems (every API-built value is WF) belong to C01/C02/C04',
        'C05_offsets (i-th offset = position of chunk i payload) is part of C05_conformant (Spec.decode checks every offset against the true position)',
        '64-bit half (RoaringTreemap), no proof gap: C05_t_size, C05_t_framing (u64 count, strictly ascending u32 keys, each followed by the standard 32-bit stream of the partition), C05_t_decode / C05_t_decode_eq (both decoders, both build configurations, arbitrary trailing bytes), C05_t_bytes (Treemap.serialize t = Spec.encode64 (Treemap.elems t)), C05_t_deterministic (+ C05_t_deterministic_repr via Treemap.canonical, C05_t_injective) and C05_t_conformant (the strict reference decoder Spec.decode64 accepts the output and reads back elems t) are proved unconditionally for well-formed treemaps = Treemap.WFd Bitmap.WF (Treemap.TWF, the invariant of the other treemap families: strictly ascending u32 keys, every partition Bitmap.WF with an element; C05_t_wf_iff: equivalent to the codec view "... and not the empty bitmap"), lifted from the 32-bit theorems through the bucket loop (Lemmas/TreemapCodec.lean, TreemapEncodeSpec.lean, TreemapCodecWF.lean)',
        'the former 64-bit partial theorems C05_t_bytes_partial / C05_t_deterministic_partial are replaced by the unconditional C05_t_bytes / C05_t_deterministic (the inherited 32-bit hypothesis Kernel.bitmap_toArray is discharged; bucket keys = distinct high halves, bucket contents = low halves: Lemmas/TreemapEncodeSpec.lean)',
        'model-fidelity audit (notes/fidelity-codecs.md): serialized_size, serialize_into, both decoders and the treemap framing were compared with the Rust line by line and are mirrored (same loops, case split, read order, arithmetic). One arithmetic gap closed: the cardinality field `(container.len() - 1) as u16` is u64 arithmetic in Rust (panic with overflow checks / 0xFFFF without, for an empty container) but was a truncated Nat subtraction in Bitmap.serialize; the driver now executes Bitmap.serializeM / Treemap.serializeM with the exact arithmetic (`ser`, `tser`, `dump`, `deser_prefix`, `tdeser_prefix`), proved equal to serialize whenever no container is empty (Fidelity.serializeM_eq / tserializeM_eq) and the property theorems are restated for them: C05_serialize_mirror_eq, C05_bytes_mirror, C05_decode_mirror, C05_t_serialize_mirror_eq, C05_t_bytes_mirror. The difference was observable only on the ill-formed value that deserialize_unchecked_from builds from a zero-run chunk (reproducer: corpus/C05/nonwf-empty-container-ser.ops.norun; not a property violation)',
    ],
    "level_text": "Lean 4 theorems over the executable model of serialize_into / serialized_size / both decoders: size law, "
                  "equality with an independent reference encoder written from the format specification (Spec.encode, "
                  "cross-validated on every run against the two upstream golden files and an independent Rust reference "
                  "codec), decode-after-encode round trip; the model is tied to the Rust source by differential "
                  "correspondence on generated values in two build profiles.",
    "level_note": "Trusted: Lean kernel; SpecCodec.lean as the reading of RoaringFormatSpec (run-free encoder); the model "
                  "mirrors serialization.rs (checked by correspondence only); byteorder/Write::write_all modelled by their "
                  "contracts. Partial theorems are listed in evidence.partial_theorems / proof_gaps.",
}
