from props import RULE_SET, only  # noqa: F401

CFG = {
    "gen_profiles": ["C09"],
    "cases": {"quick": 1200, "thorough": 6000},
    "compare": "set",
    "rule": RULE_SET + "; each case builds a pool of <= 40 operands and runs 3-8 multi-ops (lengths {0,1,2,3,9,10,11,12,49,50,51,60} and 0-8) over it",
    # regexes over "<op line> => <model output>"; the part after " | " of a `multi` line is the model's path tags:
    # t=<size_hint arm>,<n vs to_collect>  skip (union: largest collected operand is empty)  nostart  collect-err
    # early=<i> (and/sub early return before item i)  arms=<insert>/<arr,arr>/<arr,bmp>/<bmp,arr>/<bmp,bmp>  cow=<n>
    "targets": {
        "size_hint None, fewer than 10 items": r"^multi .* t=none,n<t",
        "size_hint None, more than 10 items": r"^multi .* t=none,n>t",
        "size_hint upper > 50 (collect 10), more items follow": r"^multi .* t=gt50,n>t",
        "size_hint upper <= 50 but too small (items follow the collected ones)": r"^multi .* t=le50,n>t",
        "exactly to_collect items": r"^multi .* t=\w+,n=t",
        ">= 49 operands": r"^multi \S+ \S+ \S+ \S+( \S+){49,} =>",
        "empty sequence": r"^multi \S+ \S+ \S+ b\d+ => ok",
        "single operand": r"^multi \S+ \S+ \S+ b\d+ b\d+ => ok",
        "union: largest collected operand empty (skip shortcut)": r"^multi or .* skip",
        "and/sub early return on empty accumulator": r"^multi (and|sub) .* early=",
        "and/sub: later error skipped by the early return": r"^multi (and|sub) res_\w+ .* err:\d+.* => ok .*early=",
        "and/sub: later error reported": r"^multi (and|sub) res_\w+ \S+ \S+ b\d+ .*err:\d+.* => err:",
        "error in the first item": r"^multi \w+ res_\w+ \S+ \S+ err:\d+.* => err:",
        "first of several errors wins": r"^multi \w+ res_\w+ [^=]*? err:(\d+) [^=]*err:\d+[^=]* => err:\1 ",
        "error found while collecting": r"^multi .* collect-err",
        "error after the collected prefix (or)": r"^multi or res_\w+ .* => err:\d+ \| t=\S+ (skip )?arms",
        "threshold probe (∩ over Results, >= 11 operands, with an error)": r"^multi and res_\w+ \S+ b\d+ (?=(\S+ ){11,})[^=]*err:\d+[^=]*=> (ok|err)",
        "promotion array+array at >= 2 merges of one call": r"^multi .* arms=\d+/([2-9]|\d\d+)/",
        "array lhs meets bitset rhs (swap / copy rhs)": r"^multi .* arms=\d+/\d+/[1-9]",
        "bitset lhs meets bitset rhs": r"^multi .* arms=\d+/\d+/\d+/\d+/[1-9]",
        "borrowed container becomes owned (COW)": r"^multi .* cow=[1-9]",
        "result with a bitset chunk": r"^dump b[45]\d .*nb=[1-9]",
        "result with >= 2 chunks": r"^dump b[45]\d .*nc=[2-9]",
    },
    "gaps": [
        "no proof gap in the fold equalities: the record Kernel (Lemmas/MultiKernel.lean) of facts about code multiops.rs only calls is inhabited by Multi.kernel (Lemmas/MultiKernelProof.lean) from the core library, the algebra family's store theorems and C02 (C02_and_ao / C02_and_ar / C02_sub_ar; the copies of the three whole-bitmap operators in MultiOps.lean are proved equal to Ops.lean's andAO / andAR / subAR); the 11 fold-equality theorems are unconditional and stated with Bitmap.WF (Multi.wf_iff : Multi.WF b <-> Bitmap.WF b)",
        "size_hint: theorems assume Hint.Admissible (to_collect > 0 or the sequence is empty), which every truthful size_hint satisfies (proved: exact, None, upper k with n <= k, and any positive upper bound). An iterator that yields items after promising at most 0 makes union/intersection return the empty set (model and code agree; outside the property).",
    ],
    "theorem_samples": [
        {"theorem": "C09_fold", "statement": "(op) (h : Hint) (l : List Bitmap) (hh : Hint.Admissible h l.length) (hwf : ∀ b ∈ l, Bitmap.WF b) : elems (multiOwned op h l) = Spec.multi (specOp op) (l.map elems) ∧ elems (multiRef op h l) = Spec.multi (specOp op) (l.map elems)"},
        {"theorem": "C09_union_owned", "statement": "(sort) (hs : IsSortDesc nContainers sort) (h) (xs : List (Except ε Bitmap)) (hh : Hint.Admissible h xs.length) (hwf : ∀ b ∈ okValues xs, Bitmap.WF b) : (tryMultiOrOwnedWith sort h xs).map elems = match firstError xs with | some e => .error e | none => .ok (Spec.multi .or ((okValues xs).map elems))"},
        {"theorem": "C09_first_error_union_xor_owned", "statement": "(sort) (hs : ∀ l, (sort l).Perm l) (h) (xs) (e) (hh : Hint.Admissible h xs.length) (hfe : firstError xs = some e) : tryMultiOrOwnedWith sort h xs = .error e ∧ tryMultiXorOwned xs = .error e"},
    ],
    "level_text": "Theorems (Lean 4, kernel-checked) that the model of every MultiOps entry point (owned, borrowed, Result items) returns the left fold of the binary set operation for every sequence, every size_hint and every admissible order of the internal sort, plus the Result laws; the model (multiops.rs mirrored line by line) is tied to the Rust source by running both on generated operand sequences in two build profiles. Unbounded quantifier = theorem; tie = sampled.",
    "level_note": "All 17 theorems (6 Result/error laws and empty sequence, 11 fold equalities) are proved unconditionally for well-formed operands. Trusted: Lean kernel; the hand-written model mirrors the code (checked by correspondence on generated sequences only); Spec.lean/SpecMulti.lean as the meaning; std Vec/binary_search/sort_unstable_by_key/Cow modelled by their contracts (the sort as any key-sorted permutation).",
}
