import re
from props import only  # noqa: F401

_PARTS2 = re.compile(r"parts=\[[^\]]*,")


def _nontrivial(body, outs):
    # at least two partitions and at least one advance / back-end call
    return any(_PARTS2.search(o) for o in outs) and any(
        b.startswith(("jadvance_to", "jadvance_back_to", "jnext_back")) for b in body)


_ABSENT = r"(8589934592|8589934602|12884901887|2147483648\d|2147483649\d|25769803775|4294967296000|4294967296010|4299262263295|18446744065119617024|18446744065119617034|18446744069414584319)"

CFG = {
    "gen_profiles": ["C12"],
    "cases": {"quick": 1000, "thorough": 10000},
    "compare": "set",
    "nontrivial": _nontrivial,
    "rule": ("cases = corpus (the five D5 shapes) + seeded treemaps with 2-4 partitions and scripts of 10-40 iterator calls "
             "(harness gen, splitmix64 from VERIF_SEED and case index); non-trivial = >= 2 partitions and at least one "
             "advance / next_back call; distinct by SHA-1 of the ops"),
    "targets": {
        "advance_to into an absent partition": r"^jadvance_to j\d+ " + _ABSENT + " ",
        "advance_back_to into an absent partition": r"^jadvance_back_to j\d+ " + _ABSENT + " ",
        "advance_to 0": r"^jadvance_to j\d+ 0 ",
        "advance_to u64::MAX": r"^jadvance_to j\d+ 18446744073709551615 ",
        "advance_back_to 0": r"^jadvance_back_to j\d+ 0 ",
        "advance_back_to u64::MAX": r"^jadvance_back_to j\d+ 18446744073709551615 ",
        "iterator emptied before the drain": r"^jsize_hint j\d+ => 0,0",
        "next on a spent iterator": r"^jnext j\d+ => none",
        "next_back on a spent iterator": r"^jnext_back j\d+ => none",
        "into_iter": r"^tinto_iter ",
        "reverse drain": r"^jdrain_rev j\d+ => n=[1-9]",
        "forward drain": r"^jdrain_fwd j\d+ => n=[1-9]",
        "bitmaps() from both ends": r"^tbitmaps_mix t\d+ (f+b|b+f)",
        "partition u32::MAX iterated": r"^jnext(_back)? j\d+ => 1844674\d{13}",
        "three or more partitions": r"parts=\[[^\],]*,[^\],]*,",
    },
    "gaps": [
        "the inner 32-bit iterators are the mirrored bitmap::Iter / bitmap::IntoIter model (Inner.iter32, Iter.lean); InnerSpec.iter32 (Lemmas/TreemapIter32.lean) proves the C03 cursor laws for it from C03_init / C03_step, so C12_init, C12_step, C12_sizeHint, C12_history, C12_intoIter are unconditional for every treemap whose partitions are Bitmap.WF (TWF); the C12_*_partial forms (every inner cursor K with an InnerSpec K) are kept",
        "model fidelity (notes/fidelity-treemap.md): treemap::Iter (next / next_back with the unrolled self.next() recursion and the front/back hand-over, advance_to / advance_back_to, size_hint) and BitmapIter (advance_to / advance_back_to re-slicing of the whole map, remaining, next / next_back) are mirrored. Closed: treemap::IntoIter::fold / rfold (iter.rs:328/344 = FlattenCompat::fold over To64IntoIter::fold over the 32-bit IntoIter::fold, values rebuilt with +) were run as next()-loops; now TIter.IntoIter.fold / rfold with IntoIter.fold_spec / rfold_spec / fold_mirror_eq / rfold_mirror_eq (Lemmas/TreemapIterFold.lean) and C12_intoIter_fold(_new); ExactSizeIterator::len of IntoIter (size_hint as usize) is TIter.IntoIter.exactLen (exactLen_eq / exactLen_spec); ExactSizeIterator::len of the borrowing Iter is now exercised (jlen; the harness used to print na); after jfold / jrfold the driver empties the slot like the harness. Not modelled: To64Iter::fold / rfold (dead code: treemap::Iter does not override fold), BitmapIter::size_hint (std Range::size_hint, no op)",
        "size_hint exactness is stated under 'remaining count <= usize::MAX' (saturating_add / the IntoIter `< usize::MAX` test)",
    ],
    "assumptions": [
        "treemap iterator correspondence bounds: 2-4 partitions from keys {0,1,3,4,u32::MAX}, <= ~12000 elements, scripts of 10-40 calls",
    ],
    "level_text": "Theorems (Lean 4, kernel-checked, unconditional) that the model of treemap::Iter (next, next_back, advance_to, advance_back_to, size_hint), treemap::IntoIter (next, next_back, size counter) and BitmapIter over the mirrored 32-bit iterators behaves as a cursor over the sorted remaining elements for every interleaving of calls on every well-formed treemap (the inner 32-bit cursor laws are the C03 theorems); the model is tied to the Rust source by running both on generated call scripts in two build profiles.",
    "level_note": "Trusted: Lean kernel; the hand-written model mirrors treemap/iter.rs and composes it with the mirrored bitmap::Iter / IntoIter model (checked by correspondence on generated scripts only); btree_map::Range and iter::FlatMap are modelled by their documented behaviour.",
}
