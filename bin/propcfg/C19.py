from props import only  # noqa: F401

CFG = {
    "gen_profiles": ["C19"],
    "cases": {"quick": 400, "thorough": 4000},
    # the value produced by the visitor must be represented exactly like the original (same serialised bytes)
    "compare": "full",
    "rule": ("cases = corpus + seeded cases (harness gen --profile C19): a value from a short history is serialised through a recording "
             "serde::Serializer (method names, byte payload, equality with serialize_into), deserialised through hand-written Deserializers "
             "delivering visit_bytes / visit_borrowed_bytes / visit_byte_buf / visit_seq of u8, round-tripped through real postcard and "
             "serde_json, and hand-encoded streams (valid, with trailing bytes, truncated, corrupted) are fed to the visitor; "
             "non-trivial = some dump shows a bitset chunk or >= 2 chunks; distinct by SHA-1 of the ops"),
    "targets": {
        "exactly one serialize_bytes call with serialize_into's bytes": r"^serde_events b0 => calls=serialize_bytes n=\d+ sh=[0-9a-f]{16} same=true$",
        "serialised value has a bitset chunk": r"^serde_events b0 => calls=serialize_bytes n=(8[2-9]\d\d|9\d\d\d|\d{5,}) ",
        "empty bitmap serialised": r"^serde_events b0 => calls=serialize_bytes n=8 ",
        "visit_bytes of own serialisation": r"^serde_visit bytes b\d+ ser:b0 => ok",
        "visit_borrowed_bytes of own serialisation": r"^serde_visit borrowed b\d+ ser:b0 => ok",
        "visit_byte_buf of own serialisation": r"^serde_visit buf b\d+ ser:b0 => ok",
        "visit_seq of own serialisation": r"^serde_visit seq b\d+ ser:b0 => ok",
        "round trip value == original": r"^eq b\d+ b\d+ => true",
        "postcard round trip": r"^serde_rt postcard b0 => ok eq=true",
        "json round trip": r"^serde_rt json b0 => ok eq=true",
        "hand-encoded stream accepted (bytes)": r"^serde_visit (bytes|borrowed|buf) b5 hex:\S+ => ok",
        "hand-encoded stream accepted (seq)": r"^serde_visit seq b5 hex:\S+ => ok",
        "malformed stream rejected (bytes)": r"^serde_visit (bytes|borrowed|buf) b5 hex:\S* => err",
        "malformed stream rejected (seq)": r"^serde_visit seq b5 hex:\S* => err",
    },
    "gaps": [
        "32-bit type: none — C19_visit_roundtrip / C19_rt / C19_roundtrip are unconditional for every well-formed value (shared Bitmap.WF): the codec round trip is C05_decode (codec family), bridged by C19.codecWF_iff",
        "RoaringTreemap: Serde.serEventsOf / visitOf are generic and the harness code is generic, but the treemap ops (tserde_*) are not wired yet (need the treemap family)",
        "postcard / serde_json themselves are exercised on the Rust side only (trusted formats); the model prints the property's expectation `ok eq=true`",
    ],
    "level_text": "Theorems (Lean 4, kernel-checked) about the model of the serde impls: Serialize emits exactly one data-model event, bytes(serialize b); the visitor's visit_bytes / visit_borrowed_bytes / visit_byte_buf / visit_seq all run the checked decoder on the delivered bytes, so each returns the original value whenever the codec round trip holds for it (C05). The model is tied to the Rust source (built with --features serde) by a recording Serializer, hand-written Deserializers and real postcard/serde_json round trips on generated values, in two build profiles. Unbounded quantifier = theorem; tie = sampled.",
    "level_note": "Trusted: Lean kernel; the hand-written model mirrors the code (checked by correspondence on generated values only); serde's trait plumbing (default visit_borrowed_bytes/visit_byte_buf forwarding), postcard and serde_json; the codec round trip is property C05 (C05_decode), used here as a lemma. 32-bit type only so far. See evidence coverage.proof_gaps.",
}
