import re
from props import only  # noqa: F401

# default rule (a dump shows a bitset chunk or >= 2 chunks) + 64-bit: a tdump shows >= 2 partitions
_NT = re.compile(r"\| nc=\d+ na=\d+ nb=[1-9]|\| nc=([2-9]|\d\d+) |\| parts=\[[^\]]*,")

CFG = {
    "gen_profiles": ["C19", "C19T"],
    "cases": {"quick": 800, "thorough": 8000},
    "nontrivial": lambda body, mout: any(_NT.search(o) for o in mout),
    # the value produced by the visitor must be represented exactly like the original (same serialised bytes)
    "compare": "full",
    "rule": ("cases = corpus + seeded cases (harness gen --profile C19): a value from a short history is serialised through a recording "
             "serde::Serializer (method names, byte payload, equality with serialize_into), deserialised through hand-written Deserializers "
             "delivering visit_bytes / visit_borrowed_bytes / visit_byte_buf / visit_seq of u8, round-tripped through real postcard and "
             "serde_json, and hand-encoded streams (valid, with trailing bytes, truncated, corrupted) are fed to the visitor; "
             "non-trivial = some dump shows a bitset chunk or >= 2 chunks; distinct by SHA-1 of the ops. RoaringTreemap (profile C19T): the same through tserde_events / tserde_visit / tserde_rt on treemaps "
             "with 0-4 partitions and hand-encoded portable 64-bit streams; non-trivial = >= 2 partitions"),
    "targets": {
        "exactly one serialize_bytes call with serialize_into's bytes": r"^serde_events b0 => calls=serialize_bytes n=\d+ sh=[0-9a-f]{16} same=true$",
        "serialised value has a bitset chunk": r"^serde_events b0 => calls=serialize_bytes n=(8[2-9]\d\d|9\d\d\d|\d{5,}) ",
        "empty bitmap serialised": r"^serde_events b0 => calls=serialize_bytes n=8 ",
        "visit_bytes of own serialisation": r"^serde_visit bytes b\d+ ser:b0 => ok",
        "visit_borrowed_bytes of own serialisation": r"^serde_visit borrowed b\d+ ser:b0 => ok",
        "visit_byte_buf of own serialisation": r"^serde_visit buf b\d+ ser:b0 => ok",
        "visit_seq of own serialisation": r"^serde_visit seq b\d+ ser:b0 => ok",
        "round trip value == original": r"^eq b\d+ b\d+ => true",
        "postcard round trip": r"^serde_rt postcard b0 => ok eq=true",
        "json round trip": r"^serde_rt json b0 => ok eq=true",
        "hand-encoded stream accepted (bytes)": r"^serde_visit (bytes|borrowed|buf) b5 hex:\S+ => ok",
        "hand-encoded stream accepted (seq)": r"^serde_visit seq b5 hex:\S+ => ok",
        "malformed stream rejected (bytes)": r"^serde_visit (bytes|borrowed|buf) b5 hex:\S* => err",
        "malformed stream rejected (seq)": r"^serde_visit seq b5 hex:\S* => err",
        "treemap: exactly one serialize_bytes call with serialize_into's bytes": r"^tserde_events t0 => calls=serialize_bytes n=\d+ sh=[0-9a-f]{16} same=true$",
        "treemap: empty treemap serialised": r"^tserde_events t0 => calls=serialize_bytes n=8 ",
        "treemap: visit_bytes of own serialisation": r"^tserde_visit bytes t\d+ ser:t0 => ok",
        "treemap: visit_borrowed_bytes of own serialisation": r"^tserde_visit borrowed t\d+ ser:t0 => ok",
        "treemap: visit_byte_buf of own serialisation": r"^tserde_visit buf t\d+ ser:t0 => ok",
        "treemap: visit_seq of own serialisation": r"^tserde_visit seq t\d+ ser:t0 => ok",
        "treemap: round trip value == original": r"^teq t\d+ t0 => true",
        "treemap: postcard round trip": r"^tserde_rt postcard t0 => ok eq=true",
        "treemap: json round trip": r"^tserde_rt json t0 => ok eq=true",
        "treemap: hand-encoded stream accepted (bytes)": r"^tserde_visit (bytes|borrowed|buf) t5 hex:\S+ => ok",
        "treemap: hand-encoded stream accepted (seq)": r"^tserde_visit seq t5 hex:\S+ => ok",
        "treemap: malformed stream rejected": r"^tserde_visit \w+ t5 hex:\S* => err",
    },
    "gaps": [
        "32-bit type: none — C19_visit_roundtrip / C19_rt / C19_roundtrip are unconditional for every well-formed value (shared Bitmap.WF): the codec round trip is C05_decode (codec family), bridged by C19.codecWF_iff",
        "RoaringTreemap: none — C19_t_events, C19_t_events_methods, C19_t_visit_kinds, C19_t_visit_roundtrip, C19_t_rt are proved in full for well-formed treemaps (Treemap.WFd Bitmap.WF = Treemap.TWF; no codec hypothesis: the treemap round trip is C05_t_decode, lifted from the 32-bit C05_decode)",
        "postcard / serde_json themselves are exercised on the Rust side only (trusted formats); the model prints the property's expectation `ok eq=true`",
        "model-fidelity audit (notes/fidelity-codecs.md): Serialize (one serialize_bytes of serialize_into's output), visit_bytes and visit_seq (push every element, then the checked decoder) are classified M for both types; deserialize_bytes dispatch, visit_borrowed_bytes / visit_byte_buf defaults and the formats are class A; `expecting` (message text) is not modelled. The driver now runs Serialize over the encoders with the exact u64 cardinality-field arithmetic (Serde.serEventsM / tserEventsM; see C05), restated: C19_events_mirror, C19_rt_mirror, C19_t_events_mirror, C19_t_rt_mirror",
    ],
    "level_text": "Theorems (Lean 4, kernel-checked) about the model of the serde impls: Serialize emits exactly one data-model event, bytes(serialize b); the visitor's visit_bytes / visit_borrowed_bytes / visit_byte_buf / visit_seq all run the checked decoder on the delivered bytes, so each returns the original value whenever the codec round trip holds for it (C05). The model is tied to the Rust source (built with --features serde) by a recording Serializer, hand-written Deserializers and real postcard/serde_json round trips on generated values, in two build profiles. Unbounded quantifier = theorem; tie = sampled.",
    "level_note": "Trusted: Lean kernel; the hand-written model mirrors the code (checked by correspondence on generated values only); serde's trait plumbing (default visit_borrowed_bytes/visit_byte_buf forwarding), postcard and serde_json; the codec round trip is property C05 (C05_decode), used here as a lemma. See evidence coverage.proof_gaps.",
}
