from props import RULE_SET, only  # noqa: F401

CFG = {
    "gen_profiles": ["C08"],
    "cases": {"quick": 400, "thorough": 4000},
    "compare": "set",
    "rule": RULE_SET + "; every case is one operand pair (C02's pair generator, half of them with a forced subset/superset/identical relation) queried with all 3 relations and 4 cardinality-only operations in both directions, plus against its own materialised intersection and union",
    "targets": {
        "is_subset true (non-trivial)": r"^is_subset b\d+ b\d+ => true",
        "is_subset false": r"^is_subset b\d+ b\d+ => false",
        "is_superset true": r"^is_superset b\d+ b\d+ => true",
        "is_superset false": r"^is_superset b\d+ b\d+ => false",
        "is_disjoint true": r"^is_disjoint b\d+ b\d+ => true",
        "is_disjoint false": r"^is_disjoint b\d+ b\d+ => false",
        "intersection_len 0": r"^inter_len .* => 0$",
        "intersection_len > 4096": r"^inter_len .* => (409[7-9]|4[1-9]\d\d|[5-9]\d\d\d|\d{5,})$",
        "difference_len 0 (subset)": r"^diff_len .* => 0$",
        "symmetric_difference_len 0 (equal sets)": r"^xor_len .* => 0$",
        "union_len > 4096": r"^union_len .* => (409[7-9]|4[1-9]\d\d|[5-9]\d\d\d|\d{5,})$",
        "bitset/array chunk pair among the operands": r"p=\S*(?<=[=,])(AB|BA)>",
        "bitset/bitset chunk pair among the operands": r"p=\S*(?<=[=,])BB>",
        "array/array chunk pair among the operands": r"p=\S*(?<=[=,])AA>",
        "one-sided key among the operands": r"p=\S*(?<=[=,])([AB]-|-[AB])>",
    },
    "gaps": [
        "no proof gap: all three relations and all four cardinalities are proved unconditionally for all well-formed operands (the lemma library's bitset-kernel record BKernel, Lemmas/StoreOps.lean, is inhabited by bKernel from the core library)",
        "well-formedness of the operands (needed for the two early-outs) is the producer table of C04",
        "fidelity audit of the store kernels and 32-bit iterators (notes/fidelity-stores-iter32.md): ArrayStore::intersection_len is now the generic scalar::and run with the CardinalityCounter visitor (Arr.interLenVisit = Arr.scalarAnd Arr.cardCounter; C08_interLen_visitor, unconditional; C08_interLen_visitor_exact), executed by the compiled driver (@[csimp], C08_driver_runs_interLen_visitor); is_disjoint / is_subset (array and bitset), intersection_len_bitmap / intersection_len_array were found mirrored",
        "fidelity audit (notes/fidelity-bitmap-core.md): is_subset is now executed as the for-loop over Pairs with its two early `return false` (Bitmap.isSubsetLoop / isSubsetMirror), is_disjoint as filter_map(zip) followed by all (Bitmap.isDisjointMirror); both unconditionally equal to the first model (isSubset_mirror_eq, isDisjoint_mirror_eq), restated as C08_is_subset_mirror / C08_is_superset_mirror / C08_is_disjoint_mirror. Pairs::next is given as a one-step state machine (Bitmap.pairsNext) of which Bitmap.pairs is proved to be the unfolding (pairs_unfold); the *_len operations and ops.rs already followed the code (operand swaps by len() / containers.len(), mem::replace threading, wrapper delegation)",
    ],
    "level_text": "Theorems (Lean 4, kernel-checked) that the model of is_subset / is_superset / is_disjoint decides the set relation on the operands' element lists and that intersection_len / union_len / difference_len / symmetric_difference_len are the cardinalities of the mathematical results (the wrapping arithmetic never wraps); the model (cmp.rs Pairs, the len short-cut, '(Bitmap, Array) => false', per-kind intersection_len) is tied to the Rust source by running both on the same generated operand pairs in two build profiles. Unbounded quantifier = theorem; tie = sampled.",
    "level_note": "Trusted: Lean kernel; the hand-written model mirrors the code (checked by correspondence on generated pairs only); Spec.lean as the meaning of the relations and cardinalities. The two early-outs are sound only for canonical (well-formed) values; well-formedness of every producer is C04's producer table.",
}
