from props import only  # noqa: F401

RULE = ("cases = corpus + seeded conformant streams (independent encoder) decoded through scheduled readers (1-byte reads, "
        "interrupted reads, odd and huge chunk sizes, cycled), truncated at / next to every kind of field boundary and at "
        "random positions (generated stream and the crate's own serialisation), and serialised into sinks that accept K "
        "bytes in scheduled chunks and then fail with Err or Ok(0); non-trivial = stream with a run cookie, or a bitset "
        "chunk, or >= 2 chunks; distinct by SHA-1 of the ops. Exhaustive truncation/failure sweeps belong to the thorough tier. "
        "64-bit half (profile C14T): small conformant portable streams through the same scheduled readers, EVERY truncation "
        "point of streams <= 100 bytes (sampled cut points at/next to outer and inner field boundaries otherwise), every "
        "prefix of the own serialisation and a failing writer at EVERY byte position when it is <= 100 bytes")

CFG = {
    "gen_profiles": ["C14", "C14T"],
    "cases": {"quick": 1000, "thorough": 10000},
    "compare": "set",
    "rule": RULE,
    "nontrivial": lambda body, mout: any("hex:3b30" in op[:60] for op in body) or any((" nc=" in o and " nc=0 " not in o and " nc=1 " not in o) for o in mout)
                  or any(op.startswith("note parts=") and ("cookie=run" in op or not op.startswith(("note parts=0", "note parts=1"))) for op in body),
    "targets": {
        "one byte per read": r"^deser_sched \w+ b\d+ sched:1 .* => ok",
        "interrupted reads": r"^deser_sched \w+ b\d+ sched:[0-9,]*i.* => ok",
        "scheduled read of a truncated stream fails": r"^deser_sched chk b2 .* => err",
        "strict prefix of a generated stream is an error": r"^deser_trunc \w+ b\d+ \d+ .* => err",
        "whole generated stream (or longer) decodes": r"^deser_trunc \w+ b\d+ \d+ .* => ok",
        "strict prefix of the crate's own bytes is an error": r"^deser_prefix \w+ b\d+ b\d+ \d+ => err",
        "whole own serialisation decodes": r"^deser_prefix \w+ b\d+ b\d+ \d+ => ok rest=0 eq=true",
        "writer fails with Err": r"^ser_fail b\d+ limit:\d+ mode:err .* => err n=",
        "writer returns Ok(0)": r"^ser_fail b\d+ limit:\d+ mode:zero .* => err n=",
        "writer large enough": r"^ser_fail .* => ok n=",
        "writer limit 0": r"^ser_fail b\d+ limit:0 .* => err n=0 ",
        "writer interrupted": r"^ser_fail b\d+ limit:\d+ mode:\w+ sched:[0-9,]*i",
        "64-bit: one byte per read": r"^tdeser_sched \w+ t\d+ sched:1 .* => ok",
        "64-bit: interrupted reads": r"^tdeser_sched \w+ t\d+ sched:[0-9,]*i.* => ok",
        "64-bit: scheduled read of a truncated stream fails": r"^tdeser_sched chk t2 .* => err",
        "64-bit: strict prefix of a generated stream is an error": r"^tdeser_trunc \w+ t\d+ \d+ .* => err",
        "64-bit: whole generated stream (or longer) decodes": r"^tdeser_trunc \w+ t\d+ \d+ .* => ok",
        "64-bit: strict prefix of the crate's own bytes is an error": r"^tdeser_prefix \w+ t\d+ t\d+ \d+ => err",
        "64-bit: whole own serialisation decodes": r"^tdeser_prefix \w+ t\d+ t\d+ \d+ => ok rest=0 eq=true",
        "64-bit: cut inside the u64 count": r"^tdeser_(trunc|prefix) \w+ t\d+ (t\d+ )?[1-7]( hex:\S+)? => err",
        "64-bit: writer fails with Err": r"^tser_fail t\d+ limit:\d+ mode:err .* => err n=",
        "64-bit: writer returns Ok(0)": r"^tser_fail t\d+ limit:\d+ mode:zero .* => err n=",
        "64-bit: writer large enough": r"^tser_fail .* => ok n=",
        "64-bit: writer fails inside the u64 count": r"^tser_fail t\d+ limit:[0-7] .* => err n=[0-7] ",
        "64-bit: writer interrupted": r"^tser_fail t\d+ limit:\d+ mode:\w+ sched:[0-9,]*i",
    },
    "gaps": [
        "partial by nature: the theorems are about the decoder/encoder logic over read_exact / write_all as modelled in IO.lean (std loops quoted there); that std's loops behave as modelled is exercised by the correspondence only",
        'all six statements are proved in full: C14_readExact_sched, C14_decode_sched, C14_prefix (every stream that decodes completely), C14_prefix_serialize (every serialisation of a Bitmap.WF value), C14_prefix_rest, C14_write (+ C14_serializeFields_flatten)',
        'scheduled chunk size 0 is read as 1 in the model (the harness never generates 0)',
        '64-bit half: C14_t_decode_sched, C14_t_prefix, C14_t_prefix_serialize, C14_t_prefix_rest, C14_t_serializeFields_flatten, C14_t_write are proved in full (C14_t_prefix_serialize for every Treemap.WFd Bitmap.WF value; the treemap decoder is the same abstract-reader program; lifted through the bucket loop)',
        'model-fidelity audit (notes/fidelity-codecs.md): the writer path now executed by the driver (`ser_fail`, `tser_fail`) is Bitmap.serializeIntoM / Treemap.serializeIntoM: one field per write_u16/u32/u64 call with the u64 arithmetic of the cardinality field, whose overflow panic (empty container, overflow checks on) is raised between two writes (a sink that fails earlier still yields Err); proved equal to serializeInto for values without empty containers and the property theorem restated: C14_serializeInto_mirror_eq, C14_write_mirror, C14_t_write_mirror. read_exact / write_all are the std loops written out (class A)',
    ],
    "level_text": "Lean 4 theorems: read_exact over any schedule of chunk sizes and interrupts equals read_exact over the plain "
                  "byte list, hence the decoder's result is schedule-independent; every strict prefix of a successfully "
                  "decoded stream fails with EOF (prefix-monotone parser lemma, preserved by bind and the container loop); "
                  "a limited writer receives exactly a prefix of the serialisation and serialize_into returns Ok iff "
                  "everything fit. Tied to the Rust source by differential correspondence with fault-injecting Read/Write "
                  "implementations.",
    "level_note": "Trusted: Lean kernel; IO.lean as the model of io::Read/Write, read_exact, write_all (std loops quoted there); "
                  "model mirrors serialization.rs (correspondence only). OS-level behaviour (EINTR storms, short reads from "
                  "real files) cannot be exhibited by the model.",
}
