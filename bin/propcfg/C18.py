from props import only  # noqa: F401

RULE = ("cases = corpus (D7 reproducer) + seeded cases: a from a short history overlapping the stream's chunks (absent key, "
        "whole chunk, window, individual values, disjoint values, bitset window), stream from the independent conformant "
        "encoder (run chunks, offset path and sequential path), then truncations at / next to field boundaries; a is "
        "re-dumped after the call; non-trivial = stream with run cookie or >= 2 chunks; distinct by SHA-1 of the ops")

CFG = {
    "gen_profiles": ["C18"],
    "cases": {"quick": 700, "thorough": 7000},
    "compare": "full",
    "rule": RULE,
    "nontrivial": lambda body, mout: any("hex:3b30" in op[:60] for op in body) or any((" nc=" in o and " nc=0 " not in o and " nc=1 " not in o) for o in mout),
    "targets": {
        "offset path (no-run cookie)": r"^inter_ser b1 b0 hex:3a30.* => ok",
        "offset path (run cookie, >= 4 chunks)": r"^inter_ser b1 b0 hex:3b30(03|04|05)00.* => ok",
        "sequential path (run cookie, < 4 chunks)": r"^inter_ser b1 b0 hex:3b30(00|01|02)00.* => ok",
        "run chunk with sum(len-1) <= 4096 < cardinality": r"^note .*\[runs-sum<=4096<card/R/",
        "truncated stream is an error": r"^inter_ser_trunc .* => err",
        "truncation goes unnoticed (skipped tail), result still right": r"^inter_ser_trunc .* => ok",
        "non-empty intersection": r"^dump b1 => len=[1-9]",
        "empty intersection": r"^dump b1 => len=0 ",
        "result holds a bitset chunk": r"^dump b1 => .* nb=[1-9]",
    },
    "gaps": [
        'no proof gap: the full statement is proved (C18 : C18_statement): for Bitmap.WF a and every byte string accepted by Spec.decode with set S, interSer dbg a bs = ok r with Bitmap.WF r and elems r = Spec.sAnd (elems a) S (C18_value), in both build configurations, on both paths (offset table with seeks / sequential with skipping), for array / bitset / run chunks (run chunks are not normalised before the &=: Store.andAssignRef_spec needs only the structural invariant); C18_serialize: the instance for the crate\'s own serialisations (via C05_conformant)',
        'truncation: C18_trunc_any - for EVERY operand, byte string and cut, debug assertions on or off, the truncated call fails with UnexpectedEof or does exactly what the full call does; hence C18_trunc: for conformant streams an EOF error or the correct value, never a panic, never a different value',
        'also for arbitrary byte strings: C18_no_panic_release, C18_header_error, C18_empty_left, C18_header_cursor',
        'descrSearch models binary_search only on key-sorted descriptions (all conformant streams)',
        'model-fidelity audit (notes/fidelity-codecs.md): both paths of intersection_with_serialized_unchecked are classified M: the offset path (loop over self.containers, seek(Start(offsets[i])), no ensure_correct_store before `&=`) and the sequential path (the kind x found matrix is written found-first in the model and kind-first in Rust: same six cells, `runs` read before the match, skip sizes 4*runs / 2*card / 8192); descrSearch is class A (std binary search; agrees on strictly ascending description keys only)',
    ],
    "level_text": "Lean model of both paths of intersection_with_serialized_unchecked over a seekable cursor, with theorems for "
                  "the value on every conformant stream and for every truncation; result also compared at run time with a ∩ Spec.decode(s) (independent reference decoder) "
                  "and tied to the Rust source by differential correspondence incl. truncated streams.",
    "level_note": "Trusted: Lean kernel; SpecCodec.lean; model mirrors ops_with_serialized.rs (correspondence only); "
                  "io::Cursor modelled as (data, pos) with seek-past-end allowed; binary_search over descriptions modelled "
                  "for key-sorted descriptions (all conformant streams).",
}
