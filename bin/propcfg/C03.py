from props import RULE_SET, only  # noqa: F401

CFG = {
    "gen_profiles": ["C03"],
    "cases": {"quick": 400, "thorough": 4000},
    "compare": "set",
    "rule": RULE_SET + "; C03 cases: a bitmap of 1-4 chunks (array and bitset) and 10-60 interleaved iterator calls on iter()/into_iter()/range()/into_range(), arguments aimed relative to the current window",
    # regexes over "<op line> => <model output>"; the part after ' | ' of an advance_* output is the model's path tag
    "targets": {
        "D1 shape: advance_to into a word beyond a pulled-in back cursor (BitmapIter)": r"^advance_to .*B:past-back",
        "advance_back_to below the front word (BitmapIter)": r"^advance_back_to .*B:before-front",
        "advance_back_to on the live front word (key_back <= key)": r"^advance_back_to .*B:back-word-live-front",
        "advance into the same word": r"^advance_(back_)?to .*near=equal B:(front-word|back-word)$",
        "advance into another word of the same chunk": r"^advance_(back_)?to .*near=equal B:between",
        "advance into another chunk (binary search Ok)": r"^advance_(back_)?to .*mid=ok",
        "advance: key absent, chunks remain (Err, more)": r"^advance_(back_)?to .*mid=err-more",
        "advance: all middle chunks skipped, far iterator trimmed": r"^advance_(back_)?to .*far=equal",
        "advance: far iterator cleared (beyond both ends)": r"^advance_(back_)?to .*far=cleared",
        "advance: target on the near side (no-op)": r"^advance_(back_)?to .*near=untouched",
        "array window: skip 0 / some / all": r"^advance_(back_)?to .*A:skip-(0|some|all)",
        "nth / nth_back past the end": r"^nth(_back)? i\d+ \d+ => none",
        "calls after exhaustion": r"^(next|next_back) i\d+ => none",
        "size_hint of an exhausted iterator": r"^size_hint .*=> 0,0",
        "range(): documented panic": r"^(into_)?range .*=> panic",
        "range(): empty range": r"^(into_)?range b\d+ (in:(\d+) ex:\3|un ex:0|ex:4294967295 un) ",
        "fold / rfold / count": r"^(fold|rfold|count) ",
        "u32::MAX / 0 as target": r"^advance_(back_)?to i\d+ (0|4294967295) ",
    },
    "gaps": [],
    "level_text": "Theorems (Lean 4, kernel-checked) that the model of bitmap::Iter / IntoIter (front / containers / back triple over slice windows and BitmapIter) is, under any interleaving of next, next_back, nth, nth_back, advance_to, advance_back_to, size_hint, count, fold, rfold, a cursor over the sorted remaining elements; the model is tied to the Rust source by running both on the same generated call sequences in two build profiles. Unbounded quantifier = theorem; tie = sampled.",
    "level_note": "Trusted: Lean kernel; the hand-written model mirrors iter.rs / container.rs / store/mod.rs / bitmap_store.rs (checked by correspondence on generated call sequences only); SpecIter.lean (cursor = list of remaining elements) as the meaning of the property; slice::Iter / vec::IntoIter / partition_point / binary_search_by_key and the std default nth / nth_back / fold / rfold are modelled by their contracts. Theorems still missing are listed in evidence coverage.proof_gaps.",
}
