from props import RULE_SET, only  # noqa: F401

CFG = {
    "gen_profiles": ["C03", "C03W"],
    "cases": {"quick": 600, "thorough": 8000},
    "compare": "set",
    "rule": RULE_SET + "; C03 cases: a bitmap of 1-4 chunks (array and bitset) and 10-60 interleaved iterator calls on iter()/into_iter()/range()/into_range(), arguments aimed relative to the current window; C03W cases: a bitset chunk with a random 3-word window, front/back cursors moved a/b set bits into it, then every target of the window (+-2) with advance_to or advance_back_to (one direction per case) on fresh clones",
    # regexes over "<op line> => <model output>"; the part after ' | ' of an advance_* output is the model's path tag
    "targets": {
        "D1 shape: advance_to into a word beyond a pulled-in back cursor (BitmapIter)": r"^advance_to .*B:past-back",
        "advance_back_to below the front word (BitmapIter)": r"^advance_back_to .*B:before-front",
        "advance_back_to on the live front word (key_back <= key)": r"^advance_back_to .*B:back-word-live-front",
        "advance into the same word": r"^advance_(back_)?to .*near=equal B:(front-word|back-word)$",
        "advance into another word of the same chunk": r"^advance_(back_)?to .*near=equal B:between",
        "advance into another chunk (binary search Ok)": r"^advance_(back_)?to .*mid=ok",
        "advance: key absent, chunks remain (Err, more)": r"^advance_(back_)?to .*mid=err-more",
        "advance: all middle chunks skipped, far iterator trimmed": r"^advance_(back_)?to .*far=equal",
        "advance: far iterator cleared (beyond both ends)": r"^advance_(back_)?to .*far=cleared",
        "advance: target on the near side (no-op)": r"^advance_(back_)?to .*near=untouched",
        "array window: skip 0 / some / all": r"^advance_(back_)?to .*A:skip-(0|some|all)",
        "nth / nth_back past the end": r"^nth(_back)? i\d+ \d+ => none",
        "calls after exhaustion": r"^(next|next_back) i\d+ => none",
        "size_hint of an exhausted iterator": r"^size_hint .*=> 0,0",
        "range(): documented panic": r"^(into_)?range .*=> panic",
        "range(): empty range": r"^(into_)?range b\d+ (in:(\d+) ex:\3|un ex:0|ex:4294967295 un) ",
        "fold / rfold / count": r"^(fold|rfold|count) ",
        "u32::MAX / 0 as target": r"^advance_(back_)?to i\d+ (0|4294967295) ",
    },
    "gaps": [
        "C03.BitmapOK (the hypothesis of C03_init / C03_range / C03_history_iter) is the part of well-formedness iteration needs (ascending u16 chunk keys; array chunks strictly ascending u16; bitset chunks of 1024 u64 words with exact cached len); it is now tied to the shared invariant: C03_BitmapOK_of_WF proves Bitmap.WF (RoaringModel/Inv.lean, established by every producer theorem of C01/C02/C09/C17/C05) implies it, and C03_init_WF / C03_range_WF / C03_history_iter_WF restate the theorems for every Bitmap.WF value (closed gap; kept here as a pointer)",
        "count / fold / rfold consume self: as steps of a history (C03_step, C03_history) they act on a clone (Clone is derived, identity in the model)",
        "modelled by contract, not verified: slice::Iter / vec::IntoIter (next, next_back, nth, nth_back, as_slice, len), slice::partition_point and binary_search_by_key on sorted input, the std default Iterator::nth / DoubleEndedIterator::nth_back / fold / rfold (repeated next / next_back); the default fold loops are totalised with fuel len()+1 and proved never to stop because of the fuel",
        "'each element once across both ends' is not a separate theorem: it is the cursor specification itself (next pops the head, next_back the last element of one strictly ascending list: C03_history + C03_ascending)",
        "fidelity audit of the store kernels and 32-bit iterators (notes/fidelity-stores-iter32.md): BitmapIter (new, next with its word scan and early exits, next_back loop, advance_to 5 arms, advance_back_to 6 arms incl. the live-word choice, size_hint, count), store::Iter, container::Iter and bitmap Iter / IntoIter (and_then_or_clear, advance_to_impl / advance_back_to_impl, size_hint_impl, next / next_back loops, nth / nth_back with the captured n, fold / rfold / count, range / into_range) were all found mirrored branch for branch (class M; std adaptors class A); no simplified definition, nothing to switch",
        "thorough-tier exhaustive sweep of DESIGN §8 C03 (all cursor states x targets in a 4-word window) is replaced by the randomised window profile C03W (random (a, b) cursor pair per case, all targets of a 3-word window)",
    ],
    "theorem_samples": [
        {"theorem": "C03_step", "statement": "forall it (h : IterWF it) (op : ItOp), IterWF (Iter.step it op).1 /\\ (Iter.step it op).1.rem = (Cursor.step it.rem op).1 /\\ (Iter.step it op).2 = (Cursor.step it.rem op).2"},
        {"theorem": "C03_history", "statement": "forall ops it, IterWF it -> IterWF (Iter.run it ops).1 /\\ (Iter.run it ops).1.rem = (Cursor.run it.rem ops).1 /\\ (Iter.run it ops).2 = (Cursor.run it.rem ops).2"},
    ],
    "level_text": "Theorems (Lean 4, kernel-checked) that the model of bitmap::Iter / IntoIter (front / containers / back triple over slice windows and BitmapIter) is, under any interleaving of next, next_back, nth, nth_back, advance_to, advance_back_to, size_hint, count, fold, rfold, a cursor over the sorted remaining elements; the model is tied to the Rust source by running both on the same generated call sequences in two build profiles. Unbounded quantifier = theorem; tie = sampled.",
    "level_note": "Trusted: Lean kernel; the hand-written model mirrors iter.rs / container.rs / store/mod.rs / bitmap_store.rs (checked by correspondence on generated call sequences only); SpecIter.lean (cursor = list of remaining elements) as the meaning of the property; slice::Iter / vec::IntoIter / partition_point / binary_search_by_key and the std default nth / nth_back / fold / rfold are modelled by their contracts. Theorems still missing are listed in evidence coverage.proof_gaps.",
}
