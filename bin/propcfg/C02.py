from props import RULE_SET, only  # noqa: F401

# every binary op prints, after " | ", one coverage cell `LR>D` per pair of the merge-join of the operands'
# chunks: store kind left / right (`-` = key absent on that side) and of the result chunk (`-` = dropped)
_OPS = ["or", "and", "sub", "xor"]
_FORMS = ["oo", "or", "ro", "rr", "ao", "ar"]


def _cell(op, cell):
    return r"^%s \w\w b\d+ b\d+ b\d+ => .*p=\S*(?<=[=,])%s>" % (op, cell)


_T = {}
for _op in _OPS:
    for _c in ["AA", "AB", "BA", "BB"]:
        _T["%s on %s chunk pair" % (_op, _c)] = _cell(_op, _c)
for _f in _FORMS:
    _T["form %s with a shared bitset/array pair" % _f] = r"^\w+ %s b\d+ b\d+ b\d+ => .*p=\S*(?<=[=,])(AB|BA)>" % _f
_T.update({
    "array∘array result grows past 4096 (becomes a bitset)": r"^(or|xor) .*(?<=[=,])AA>B",
    "bitset operand, result shrinks to an array": r"^(and|sub|xor) .*(?<=[=,])(B[AB]|AB)>A",
    "shared chunk emptied by the operation (dropped)": r"^(and|sub|xor) .*(?<=[=,])[AB][AB]>-",
    "whole result empty from non-empty operands": r"^(and|sub|xor) .*p=(\S\S>-,)*[AB][AB]>-(,\S\S>-)*$",
    "key on the left only: first": r"p=[AB]->\S,",
    "key on the left only: middle": r"p=\S+,[AB]->\S,",
    "key on the left only: last": r"p=\S+,[AB]->\S$",
    "key on the right only: first": r"p=-[AB]>\S,",
    "key on the right only: middle": r"p=\S+,-[AB]>\S,",
    "key on the right only: last": r"p=\S+,-[AB]>\S$",
    "identical operands (same slot)": r"^(or|and|sub|xor) \w\w b\d+ (b\d+) \2 =>",
    "an operand is empty": r"^(or|and|sub|xor) .*p=(([AB]->\S,?)+|(-[AB]>\S,?)+|)$",
    "full chunk (65536 values) built": r"^insert_range b\d+ in:(\d+) in:(\d+) => 65536",
    "assign form updated the left operand (eq bD bL)": r"^eq b2 b3 => true",
})

CFG = {
    "gen_profiles": ["C02"],
    "cases": {"quick": 300, "thorough": 3000},
    "compare": "set",
    "rule": RULE_SET + "; every case is one operand pair pushed through 4 operators x 6 forms (24 results dumped)",
    "targets": _T,
    "gaps": [
        "no proof gap: all 4 operators x 6 forms are proved exact unconditionally (C02_all_forms), each through its own code path; the lemma library's bitset-kernel record BKernel (Lemmas/StoreOps.lean) is inhabited by bKernel from the core library (Lemmas/BStoreBasic.lean, BStoreRange.lean); C02_forms_agree: all forms of one operator return structurally equal values (Bitmap.canonical)",
        "fidelity audit of the store kernels and 32-bit iterators (notes/fidelity-stores-iter32.md): the array-array kernels are now also stated as the ONE generic merge per operator of scalar.rs, parameterised by the BinaryOperationVisitor (Arr.scalarOr/And/Sub/Xor, visitors Arr.vecWriter / Arr.cardCounter; C02_scalar_vecWriter, unconditional), closed by from_vec_unchecked whose debug validation is proved never to fire on strictly ascending operands (Arr.orOp/andOp/subOp/xorOp, C02_array_ops_exact); op_bitmaps is mirrored as the single loop with the running len (BStore.opBitmapsMirror, C02_opBitmaps_mirror, unconditional); to_array_store / to_bitmap_store with the validation of the *_unchecked constructor they end in (C02_conversions_validated); the compiled driver executes the mirrored kernels (@[csimp], C02_driver_runs_mirrors). The |=, -=, ^= of a bitset with an array (per-element counter updates, the i64 trick), the in-place &= / -= retain forms with the galloping index and all bitset word loops were found mirrored",
        "'borrowed operands are left unchanged' is not a theorem of a functional model; it is checked by the harness (operand hashes after every borrowed form) on the sampled pairs only",
    ],
    "level_text": "Theorems (Lean 4, kernel-checked) that the model of |, &, -, ^ in each operand/assign form computes exactly the set union / intersection / difference / symmetric difference of the operands' element lists; the model (ops.rs Pairs loops, operand swaps, per-kind store dispatch, ensure_correct_store) is tied to the Rust source by running both on the same generated operand pairs in two build profiles, all 4 operators x 6 forms per pair, with the borrowed operands re-hashed after every borrowed form. Unbounded quantifier = theorem; tie = sampled.",
    "level_note": "Trusted: Lean kernel; the hand-written model mirrors the code (checked by correspondence on generated pairs only); Spec.lean (sOr/sAnd/sSub/sXor with their membership laws) as the meaning of the set operations. 'Borrowed operands unchanged' is not a theorem of a functional model: it is what & guarantees in safe Rust, and is checked by the harness only on the sampled pairs.",
}
