from props import only  # noqa: F401

_ERR = r"(in:(\d+) ex:\2|ex:(\d+) in:\3|ex:(\d+) ex:\4|un ex:0|ex:4294967295 un|ex:4294967295 \S+|\S+ ex:0)"

CFG = {
    "gen_profiles": ["C16", "C16T"],
    "cases": {"quick": 800, "thorough": 9000},
    # totality is about results and panics, not about representation
    "compare": "set",
    "rule": ("cases = corpus + seeded cases (harness gen --profile C16): a value from a short history (empty, arrays, bitsets, full chunk, "
             "u32::MAX chunk), then 6-14 entries of the property's argument table (empty / inverted / equal-excluded / unbounded / "
             "exclusive bounds, counts >> len, indices past the end, 0, u32::MAX) through every 32-bit method that has an op, plus Debug "
             "formatting (profile C16); profile C16T: the same argument table (u64 bounds, 0, u32::MAX, u64::MAX, targets before the front / beyond "
             "the back / in absent partitions / in the partition the other end already opened) through the RoaringTreemap methods and through "
             "advance_to / advance_back_to / nth / nth_back / next / next_back / size_hint / fold of all four iterator types; executed in both build profiles (overflow checks on and off); non-trivial = some dump shows a bitset chunk "
             "or >= 2 chunks; distinct by SHA-1 of the ops"),
    "targets": {
        "insert_range: empty/inverted -> 0": r"^insert_range b0 %s => 0$" % _ERR,
        "remove_range: empty/inverted -> 0": r"^remove_range b0 %s => 0$" % _ERR,
        "range_cardinality: empty/inverted -> 0": r"^range_cardinality b0 %s => 0$" % _ERR,
        "contains_range: empty/inverted -> true": r"^contains_range b0 %s => true$" % _ERR,
        "inverted inclusive bounds": r"^\w+ b0 in:4294967295 in:0 => (0|true)$",
        "equal excluded bounds": r"^\w+ b0 ex:(\d+) ex:\1 => (0|true)$",
        "Excluded(u32::MAX) start": r"^\w+ b0 ex:4294967295 \S+ => (0|true)$",
        "Excluded(0) end": r"^\w+ b0 \S+ ex:0 => (0|true)$",
        "fully unbounded range (query/remove)": r"^(remove_range|range_cardinality|contains_range) b0 un un => ",
        "whole universe in:0 in:MAX": r"^(remove_range|range_cardinality|contains_range) b0 in:0 in:4294967295 => ",
        "range ending at u32::MAX inserted": r"^insert_range b0 \S+ (un|in:4294967295) => [1-9]",
        "remove_smallest/biggest with n >> len": r"^remove_(smallest|biggest) b0 (1099511627776|18446744073709551615|18446744073709551614|4294967296) => ok",
        "remove_smallest/biggest 0": r"^remove_(smallest|biggest) b0 0 => ok",
        "select past the end": r"^select b0 (4294967295|4294967296|1099511627776|18446744073709551615) => none",
        "rank u32::MAX / 0": r"^rank b0 (4294967295|0) => ",
        "insert/push/remove u32::MAX": r"^(insert|push|remove) b0 4294967295 => ",
        "append/extend at u32::MAX": r"^(append|extend) b0 .*4294967295",
        "append rejected": r"^append b0 .* => err \d",
        "Debug of an empty bitmap": r"^debug b\d+ => ok n=17 ",
        "Debug next to the len() < 16 rule: 15": r"^len b0 => 15$",
        "Debug next to the len() < 16 rule: 16": r"^len b0 => 16$",
        "Debug in list form (len < 16)": r"^debug b\d+ => ok n=(1[89]|[2-9]\d|\d{3}) h=\S+ f=list",
        "Debug in summary form (len >= 16)": r"^debug b\d+ => ok n=\d+ h=\S+ f=summary",
        "documented from_lsb0_bytes panic": r"^from_lsb0 b5 \d+ hex:\S+ => panic",
        "from_lsb0 empty slice at the top": r"^from_lsb0 b4 42949672\d\d hex: => ok",
    },
    "gaps": [
        "C16_safe_* (DESIGN §8, lean/RoaringModel/Safe.lean + Lemmas/SafeLemmas.lean): for every `-`, `+=`, `<<`/`>>`, slice index / slice range and narrowing `as` cast of bitmap_store.rs (insert, remove, contains, insert_range, remove_range, contains_range, min, max, to_array_store, rank, select + the select() helper, remove_smallest, remove_biggest, op_bitmaps, |= / -= / ^= with an array incl. the i64 counter, intersection_len_*, BitmapIter next/next_back/advance_*), array_store/mod.rs (insert, remove, insert_range, remove_range, contains_range, to_bitmap_store incl. the debug unwrap, rank, select), container.rs (insert_range, remove_smallest, remove_biggest, ensure_correct_store), inherent.rs (binary_search indices, find_container_by_key, insert_range as a whole incl. the chunk loop, contains_range, range_cardinality, len, rank, select, remove_smallest, remove_biggest, the insert_range/remove_range counters), util.rs split/join, serialization.rs serialize_into/serialized_size, statistics.rs, and the treemap's split/join/len/rank/select/insert_range-over-an-existing-partition, the side condition is a decidable predicate Safe_* over the model state (file:line next to every conjunct) and is PROVED from BStore.Inv / Arr.Inv / Store.Inv / Bitmap.WF plus the integer type of the arguments (45 theorems C16_safe_*, each with a concrete example; several with a counterexample on an ill-formed value showing the predicate is not vacuous)",
        "caller obligations that are not consequences of the receiver's invariant: ArrayStore::remove_smallest/remove_biggest need n <= len (rotate_left, len - n) and Container::remove_smallest/remove_biggest need n <= len (bits.len() - n); they are crate-private and C16_safe_removeSmallest / C16_safe_removeBiggest prove that the only callers (RoaringBitmap::remove_smallest/biggest) pass 0 < n < container.len() for every u64 argument",
        "observation (not a reachable defect): the u64 sums of RoaringTreemap::len, ::rank(u64::MAX) and the counter of ::insert_range(..) reach exactly 2^64 for the one treemap holding all 2^64 values and overflow there (C16_safe_treemap_len_iff, C16_treemap_len_2p64_observation); that value needs 2^32 full partitions = 2^61 bytes, so it is excluded by the property's fits-in-memory clause; len/rank are proved safe for fewer than 2^32 partitions (C16_safe_treemap_len, C16_safe_treemap_rank), select and the 32-bit type unconditionally",
        "not stated as Safe_* theorems: (1) the composition over the `while index < len` loop of RoaringBitmap::remove_range as ONE predicate (the pieces are there: the index is below len by the loop test, every container call gets a <= b <= u16::MAX so C16_safe_store applies, intermediate values are well-formed by C01, the counter by C16_safe_range_counters), likewise insert/remove/contains/push as compositions of C16_safe_search + C16_safe_store; (2) the binary operators' array-array merges (scalar.rs has no arithmetic besides slice iteration), MultiOps, from_lsb0_bytes (its panic is C16_lsb0_panics), the decoders (covered as err-never-panic by C13/C14) and the treemap iterators; (3) allocation sizes (Vec::with_capacity, n_bytes_* of statistics) — capacity dependent, not modelled. For these, absence of arithmetic panics rests on the differential runs with overflow checks enabled",
        "the Safe_* predicates talk about the MODEL's intermediate values; that the model's expressions are the Rust expressions is the hand-written mirroring checked by the correspondence runs (both overflow-check settings)",
        "proved for well-formed values (shared Bitmap.WF) and arguments of the right integer type: every mutator is total in both build configurations and keeps well-formedness (C16_mutators_total, C16_history_total, from C01); range()/into_range() panic exactly on the two documented inputs (C16_range_panics, from C03); from_lsb0_bytes never panics for offset + 8*len <= 2^32 and, for a multiple-of-8 offset, panics exactly past 2^32 (C16_lsb0_panics, from C17); select/min/max return None exactly when there is no such element (C16_select_total, C16_min_max_total); Debug is total and equals the SPEC string (C16_debug_total, C16_debug_spec)",
        "C16_ranges, C16_convertRange_ok/_error/_nonempty are proved without assumptions beyond bounds that fit u32 (convert_range_to_inclusive uses checked_add/checked_sub resp. explicit Excluded(MAX)/Excluded(0) arms: the guards are explicit in the model)",
        'model-fidelity audit (notes/fidelity-codecs.md): Debug formatting printed the abstraction `elems` in the list branch; the Rust prints self.iter().collect::<Vec<_>>(). The driver (`debug`, `tdebug`) now executes Bitmap.debugFmtM / Treemap.debugFmtM, which drive the mirrored bitmap::Iter / treemap::Iter with next() until None, proved equal to debugFmt for well-formed values (Fidelity.debugFmtM_eq from C03_init + Iter.next_spec; Fidelity.tdebugFmtM_eq from C12_init + C12_step) and the theorems are restated for them: C16_debug_mirror_eq / _total / _spec, and (new, the treemap formatter had no theorem) C16_tdebug_mirror_eq, C16_tdebug_spec, C16_tdebug_total. As built, the driver does not evaluate the Safe_* predicates at run time (DESIGN §8 says it would); in the codec area the only observable consequence was the empty-container case described under C05',
    ],
    "level_text": "Theorems (Lean 4, kernel-checked) about the model: for every bound pair that convert_range_to_inclusive rejects, insert_range/remove_range/range_cardinality return 0, contains_range returns true and the bitmap is unchanged; the conversion fails exactly on the empty intervals (never on a non-empty one); Debug formatting is total; every arithmetic side condition of the stores, containers, 32-bit inherent API, serialization writer, statistics and treemap len/rank/select (decidable Safe_* predicates with file:line references) follows from well-formedness (C16_safe_*). Absence of arithmetic panics is additionally tied to the Rust source by running the property's argument table on generated values in two build profiles (overflow checks on: a panic is a difference; off: a wrapped value is a difference). Unbounded quantifier = theorem for the range part; the rest = sampled.",
    "level_note": "Trusted: Lean kernel; the hand-written model mirrors the code (checked by correspondence on generated values only); the per-site arithmetic side conditions (Safe_* predicates, Safe.lean) are theorems for the stores, containers, the 32-bit inherent API, serialization writer, statistics and the treemap's len/rank/select (see coverage.proof_gaps for what is left to the differential runs with overflow checks enabled). See evidence coverage.proof_gaps.",
}
