import re
from props import only  # noqa: F401

_PARTS2 = re.compile(r"parts=\[[^\]]*,")


def _nontrivial(body, outs):
    # some operand or result with at least two partitions
    return any(_PARTS2.search(o) for o in outs)


_T = {}
for _op in ("tor", "tand", "tsub", "txor"):
    for _f in ("oo", "or", "ro", "rr", "ao", "ar"):
        _T["%s %s" % (_op, _f)] = r"^%s %s " % (_op, _f)
_T.update({
    "every partition emptied by the operation": r"^t(and|sub|xor) \w\w .*=> ok [1-9]\d*,[1-9]\d*->0",
    "some (not every) partition emptied by sub": r"^tsub \w\w .*=> ok (2,\d+->1|3,\d+->[12]|4,\d+->[123]|5,\d+->[1234])$",
    "one-sided partitions (different partition counts)": r"^t(or|xor) \w\w .*=> ok (\d+),(?!\2->)\d+->",
    "union creates partitions": r"^tor \w\w .*=> ok ([1-4]),([1-4])->([3-9])",
    "empty operand": r"^t(or|and|sub|xor) \w\w .*=> ok (0,\d+|\d+,0)->",
    "is_subset true": r"^tis_subset .*=> true",
    "is_subset false": r"^tis_subset .*=> false",
    "is_superset true": r"^tis_superset .*=> true",
    "is_disjoint true": r"^tis_disjoint .*=> true",
    "is_disjoint false": r"^tis_disjoint .*=> false",
    "intersection_len 0": r"^tinter_len .*=> 0",
    "intersection_len > 0": r"^tinter_len .*=> [1-9]",
    "multi-op with no operand": r"^tmulti \w+ \w+ t2 => ok",
    "multi-op with one operand": r"^tmulti \w+ \w+ t2 t\d+ => ok",
    "heap merge over >= 8 operands": r"^tmulti (or|xor) \w+ t2( (t\d+|err:\d+)){8,} => ok",
    "ordered multi-op over >= 8 operands": r"^tmulti (and|sub) \w+ t2( (t\d+|err:\d+)){8,} => ok",
    "multi-op Result form returns the first error": r"^tmulti \w+ res_\w+ .*=> err:\d",
    "multi-op Result form with two errors": r"^tmulti \w+ res_\w+ .*err:\d+ .*err:\d+.* => err:",
    "multi-op Result form, error first": r"^tmulti \w+ res_\w+ t2 err:\d+ .*=> err:",
    "multi-op Result form all Ok": r"^tmulti \w+ res_\w+ t2( t\d+)+ => ok",
})

CFG = {
    "gen_profiles": ["C11"],
    "cases": {"quick": 300, "thorough": 3000},
    "compare": "set",
    "nontrivial": _nontrivial,
    "rule": ("cases = seeded pairs / sequences of treemaps built by short histories over shared partition keys "
             "(harness gen, splitmix64 from VERIF_SEED and case index): all 4 operators x 6 operand forms, relations, *_len, "
             "MultiOps (own / ref / Result with injected errors) over 0-12 operands; non-trivial = some value with >= 2 partitions"),
    "targets": _T,
    "gaps": [
        "proved unconditionally for the executable model (Ops32.model = the mirrored 32-bit operations in exactly the forms ops.rs / cmp.rs / multiops.rs call them; hypothesis TWF on the operands): all 4 operators x 6 operand forms (C11_all_forms: result well-formed incl. removal of emptied partitions, elems = Spec set operation), is_subset / is_superset / is_disjoint, intersection_len, difference_len (the plain - never underflows), union_len and symmetric_difference_len = the cardinality mod 2^64 (exact unless the result is all 2^64 values: then the Rust wraps to 0 as well), MultiOps owned / borrowed = the fold (C11_multi) for EVERY min-extraction of the heap (C11_multi_any_heap) with fuel never exhausted early (C11_multi_fuel), Result forms (all Ok -> Ok of the fold; otherwise the first error). The 32-bit laws used are BinLaws (from C02/C08) and MultiLaws (C09 + well-formedness of the 32-bit multi-op results, Lemmas/TreemapMultiLaws.lean); the *_partial forms hold for every Ops32 satisfying them",
        "model fidelity (notes/fidelity-treemap.md): all of treemap/ops.rs, cmp.rs, multiops.rs compared branch by branch with what the driver executes. Two simplifications were found and closed: is_disjoint is now run as written (filter(both Some) then all(unwrap..), Treemap.isDisjointMirror; isDisjointMirror_eq unconditional; C11_isDisjoint_mirror), and try_ordered_multi_op_owned is now run with the remove(&k) it performs on the OTHER operands (Treemap.orderedMultiOwnedMirror / multiMirror / multiTryMirror; orderedMultiOwnedMirror_eq / multiMirror_eq / multiTryMirror_eq under strictly ascending keys, i.e. TWF; C11_multi_mirror, C11_multiTry_mirror). Everything else (operand swaps, Entry flows, keys_to_remove, Pairs, heap loop with grouping and final flush, Result collection) was already mirrored",
        "BinaryHeap is modelled as 'extract an entry with minimal key' (IsExtractMin: any minimal entry, the others in any order); the executable model picks the first minimal entry",
    ],
    "assumptions": [
        "treemap algebra correspondence bounds: <= 5 partitions (keys 0,1,3,4,u32::MAX), operands <= ~10^5 elements, multi-op sequences <= 14 items",
    ],
    "level_text": "Theorems (Lean 4, kernel-checked, unconditional) that the model of the treemap binary operations in every operand/assign form, the relations, the *_len cardinalities and the MultiOps folds (heap-based k-way merge for an arbitrary min-extraction, ordered fold, Result forms) equal the set operations on strictly ascending lists of u64, for all well-formed operands, over the mirrored 32-bit operations (C02/C08/C09); the partition-level code (operand swaps, Entry flows, removal of emptied partitions, Pairs, heap merge with grouping) is mirrored and tied to the Rust source by running both on generated operand sequences in two build profiles.",
    "level_note": "Trusted: Lean kernel; the hand-written model mirrors treemap/ops.rs, cmp.rs, multiops.rs at the partition level and calls the mirrored 32-bit operations (Ops32.model) in the same forms as the Rust (checked by correspondence only); BTreeMap/BinaryHeap modelled by their contracts; union_len / symmetric_difference_len are exact modulo 2^64.",
}
