import re
from props import only  # noqa: F401

_PARTS2 = re.compile(r"parts=\[[^\]]*,")


def _nontrivial(body, outs):
    # some operand or result with at least two partitions
    return any(_PARTS2.search(o) for o in outs)


_T = {}
for _op in ("tor", "tand", "tsub", "txor"):
    for _f in ("oo", "or", "ro", "rr", "ao", "ar"):
        _T["%s %s" % (_op, _f)] = r"^%s %s " % (_op, _f)
_T.update({
    "every partition emptied by the operation": r"^t(and|sub|xor) \w\w .*=> ok [1-9]\d*,[1-9]\d*->0",
    "some (not every) partition emptied by sub": r"^tsub \w\w .*=> ok (2,\d+->1|3,\d+->[12]|4,\d+->[123]|5,\d+->[1234])$",
    "one-sided partitions (different partition counts)": r"^t(or|xor) \w\w .*=> ok (\d+),(?!\2->)\d+->",
    "union creates partitions": r"^tor \w\w .*=> ok ([1-4]),([1-4])->([3-9])",
    "empty operand": r"^t(or|and|sub|xor) \w\w .*=> ok (0,\d+|\d+,0)->",
    "is_subset true": r"^tis_subset .*=> true",
    "is_subset false": r"^tis_subset .*=> false",
    "is_superset true": r"^tis_superset .*=> true",
    "is_disjoint true": r"^tis_disjoint .*=> true",
    "is_disjoint false": r"^tis_disjoint .*=> false",
    "intersection_len 0": r"^tinter_len .*=> 0",
    "intersection_len > 0": r"^tinter_len .*=> [1-9]",
    "multi-op with no operand": r"^tmulti \w+ \w+ t2 => ok",
    "multi-op with one operand": r"^tmulti \w+ \w+ t2 t\d+ => ok",
    "heap merge over >= 8 operands": r"^tmulti (or|xor) \w+ t2( (t\d+|err:\d+)){8,} => ok",
    "ordered multi-op over >= 8 operands": r"^tmulti (and|sub) \w+ t2( (t\d+|err:\d+)){8,} => ok",
    "multi-op Result form returns the first error": r"^tmulti \w+ res_\w+ .*=> err:\d",
    "multi-op Result form with two errors": r"^tmulti \w+ res_\w+ .*err:\d+ .*err:\d+.* => err:",
    "multi-op Result form, error first": r"^tmulti \w+ res_\w+ t2 err:\d+ .*=> err:",
    "multi-op Result form all Ok": r"^tmulti \w+ res_\w+ t2( t\d+)+ => ok",
})

CFG = {
    "gen_profiles": ["C11"],
    "cases": {"quick": 300, "thorough": 3000},
    "compare": "set",
    "nontrivial": _nontrivial,
    "rule": ("cases = seeded pairs / sequences of treemaps built by short histories over shared partition keys "
             "(harness gen, splitmix64 from VERIF_SEED and case index): all 4 operators x 6 operand forms, relations, *_len, "
             "MultiOps (own / ref / Result with injected errors) over 0-12 operands; non-trivial = some value with >= 2 partitions"),
    "targets": _T,
    "gaps": [
        "proved without hypotheses: Result forms of the multi-ops (all Ok -> Ok of the plain multi-op; otherwise the first error, for all four operators), the empty sequence, which operand forms share code (C11_forms). NOT yet proved: the lifting of the four binary operations (6 forms), is_subset/is_superset/is_disjoint, the four *_len and the heap-based / ordered multi-op folds to the Spec set operations on u64 - these are decided by the correspondence check (MODEL = SPEC column on every generated case) only",
        "the 32-bit binary operations, relations, intersection_len and 32-bit MultiOps are a parameter (Ops32) of the treemap model, to be instantiated by the algebra / multi families (C02, C08, C09) at merge; until then the driver instantiates Ops32 with stand-ins built from the Spec set operations (clearly marked in Driver/TreemapAlg.lean), so the correspondence exercises the partition-level logic of ops.rs / cmp.rs / multiops.rs, not the 32-bit kernels",
        "BinaryHeap is modelled as 'extract an entry with minimal key'; the executable model picks the first minimal entry; mergeLoop is fuelled by the number of partitions (never exhausted early - not yet proved)",
    ],
    "assumptions": [
        "treemap algebra correspondence bounds: <= 5 partitions (keys 0,1,3,4,u32::MAX), operands <= ~10^5 elements, multi-op sequences <= 14 items",
    ],
    "level_text": "Theorems (Lean 4, kernel-checked) that the model of the treemap binary operations in every operand/assign form, the relations, the *_len cardinalities and the MultiOps folds (heap-based k-way merge, ordered fold, Result forms) equal the set operations on strictly ascending lists of u64, given 32-bit operations that satisfy their specifications; the partition-level code (operand swaps, Entry flows, removal of emptied partitions, Pairs, heap merge with grouping) is mirrored and tied to the Rust source by running both on generated operand sequences in two build profiles.",
    "level_note": "Trusted: Lean kernel; the hand-written model mirrors treemap/ops.rs, cmp.rs, multiops.rs at the partition level (checked by correspondence only); the 32-bit operations are a model parameter (stand-ins derived from Spec until the algebra/multi families are merged), so the correspondence exercises the partition-level logic, not the 32-bit kernels; BTreeMap/BinaryHeap modelled by their contracts.",
}
