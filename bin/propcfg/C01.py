from props import RULE_SET, only  # noqa: F401

CFG = {
        "gen_profiles": ["C01"],
        "cases": {"quick": 400, "thorough": 4000},
        "compare": "set",
        "rule": RULE_SET,
        "targets": {
            "chunk population exactly 4096": r"dump .*va=4096 |card=4096 ",
            "array->bitset by single insert": r"^insert .* true",
            "append rejected in the middle": r"^append .*=> err [1-9]",
            "append rejected at 0": r"^append .*=> err 0",
            "push refused": r"^push .*=> false",
            "remove_smallest/biggest beyond len": r"^remove_(smallest|biggest) b\d+ (1099511627776|18446744073709551615)",
            "empty or inverted range": r"^(insert|remove)_range b\d+ (in:(\d+) ex:\3|ex:(\d+) ex:\4|un ex:0|ex:4294967295 un) => 0",
            "u32::MAX touched": r" 4294967295| in:4294967295",
        },
        "gaps": ["extend/from_iter is modelled as a fold of insert (the Rust caches the current container between equal-key values)",
                 "fidelity audit of the store kernels and 32-bit iterators (notes/fidelity-stores-iter32.md): every ArrayStore / BitmapStore mutator is mirrored branch for branch; the one simplification found — BitmapStore::insert_range summed and then filled the middle words where the Rust counts and overwrites them in one loop — is closed: BStore.insertRangeMirror (midLoop) = BStore.insertRange under BStore.Inv (C01_bstore_insertRange_mirror), and the compiled driver executes the mirrored loop (guarded @[csimp] BStore.insertRange_eq_exec, C01_driver_runs_insertRange_mirror)"],
        "gaps": ["fidelity audit (notes/fidelity-bitmap-core.md): no simplification left open in inherent.rs / iter.rs / container.rs / util.rs. The driver now executes statement-by-statement mirrors (RoaringModel/Mirror32.lean) for the three mutators whose first model used a different algorithm, each proved equal to it (Lemmas/Mirror32.lean) and restated in Props/C01.lean: Extend/FromIterator keep current_container_index between values of equal key (Bitmap.extendMirror, extend_mirror_eq — unconditional; C01_extend_mirror); remove_smallest / remove_biggest are position / rposition + drain + indexed call, and the bitset->array rebuild inside them drains a BitmapIter (Bitmap.removeSmallestMirror / removeBiggestMirror, Container.*Mirror, BStore.iterAll; *_mirror_eq under the store invariants Bitmap.WF contains; C01_removeSmallest_mirror / C01_removeBiggest_mirror); C01_step_mirror / C01_history_mirror are the step and history theorems over the mirrored step",
                 "Bitmap.step (the dispatcher of the history theorem) is not itself executed by the driver: the driver calls the same per-operation definitions one op line at a time"],
    "level_text": "Theorems (Lean 4, kernel-checked) that the model of every RoaringBitmap mutator refines the abstract set operation on strictly ascending lists, for all histories and arguments; the model is tied to the Rust source by running both on the same generated histories in two build profiles. Unbounded quantifier = theorem; tie = sampled.",
    "level_note": "Trusted: Lean kernel; the hand-written model mirrors the code (checked by correspondence on generated histories only); Spec.lean as the meaning of 'set of u32'; std Vec/binary_search primitives are modelled by their contracts. Theorems still missing for a given operation are listed in evidence coverage.proof_gaps.",
    }
