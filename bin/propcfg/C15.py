from props import RULE_SET, only  # noqa: F401

import os, re


# normalised text (comments stripped, whitespace collapsed) of the 16 unsafe blocks the theorems are stated for
MODELLED_UNSAFE_BLOCKS = [
    ["bitmap/inherent.rs", "unsafe { self.containers.get_unchecked(i) }"],
    ["bitmap/store/array_store/mod.rs", "unsafe { *slice.get_unchecked_mut(pos) = val }"],
] + [["bitmap/store/array_store/scalar.rs", "unsafe { lhs.get_unchecked(i) }"]] * 4 + [
    ["bitmap/store/array_store/scalar.rs", "unsafe { rhs.get_unchecked(j) }"]] * 4 + [
    ["bitmap/store/bitmap_store.rs", "unsafe { *bits.get_unchecked(new_key as usize) }"],
    ["bitmap/store/bitmap_store.rs", "unsafe { *bits.get_unchecked(new_key as usize) }"],
    ["bitmap/store/bitmap_store.rs", "unsafe { *self.bits.borrow().get_unchecked(key as usize) }"],
    ["bitmap/store/bitmap_store.rs", "unsafe { *self.bits.borrow().get_unchecked(self.key_back as usize) }"],
    ["bitmap/store/bitmap_store.rs", "unsafe { bytes.as_ptr().cast::<[u64; BITMAP_LENGTH]>().read_unaligned() }"],
    ["bitmap/store/bitmap_store.rs", "unsafe { core::slice::from_raw_parts_mut(bits.as_mut_ptr().cast::<u8>(), BITMAP_BYTES) }"],
]


def unsafe_blocks(root):
    out = []
    for d, _, files in os.walk(root):
        for f in sorted(files):
            if not f.endswith(".rs") or f in ("vector.rs", "verif_hooks.rs"):
                continue
            path = os.path.join(d, f)
            code = "\n".join(ln.split("//")[0] for ln in open(path).read().split("\n"))
            for m in re.finditer(r"\bunsafe\b", code):
                i = code.find("{", m.end())
                if i < 0:
                    continue
                depth, j = 0, i
                while j < len(code):
                    if code[j] == "{":
                        depth += 1
                    elif code[j] == "}":
                        depth -= 1
                        if depth == 0:
                            break
                    j += 1
                out.append([os.path.relpath(path, root), re.sub(r"\s+", " ", code[m.start():j + 1]).strip()])
    return sorted(out)


def unsafe_sites_audit():
    """Every `unsafe` block of the (non-simd) crate source must be one of the modelled sites, i.e. be preceded by a
    `verif_hooks::site(..)` recorder within the few lines above it. A new or un-instrumented unsafe site means the
    bounds theorems and the recorders no longer cover the code: reported as a proof-obligation failure."""
    repo = os.environ.get("VERIF_REPO", "/repo")  # VERIF_REPO: development aid of bin/check
    root = os.path.join(repo, "roaring/src")
    problems = []
    n_sites = 0
    for d, _, files in os.walk(root):
        for f in files:
            if not f.endswith(".rs") or f in ("vector.rs", "verif_hooks.rs"):
                continue  # vector.rs: nightly-only `simd` feature, out of scope (DESIGN §10)
            path = os.path.join(d, f)
            lines = open(path).read().split("\n")
            for i, ln in enumerate(lines):
                code = ln.split("//")[0]
                if re.search(r"\bunsafe\b", code) and not re.search(r"unsafe_op_in_unsafe_fn", code):
                    n_sites += 1
                    window = "\n".join(lines[max(0, i - 8):i + 1])
                    if "verif_hooks::site(" not in window:
                        problems.append("unsafe code without a bounds recorder at %s:%d: %s" % (os.path.relpath(path, repo), i + 1, ln.strip()[:80]))
    # the text of every unsafe block is part of what the bounds theorems (Unsafe.lean / UnsafeIter.lean) model: a block
    # that reads differently (another accessor, a reference instead of an unaligned read, another cast) is no longer
    # the modelled access, whatever its index
    got = unsafe_blocks(root)
    want = sorted(MODELLED_UNSAFE_BLOCKS)
    if got != want:
        for b in got:
            if b not in want or got.count(b) > want.count(b):
                problems.append("unsafe block differs from the modelled one in %s: %s" % (b[0], b[1][:160]))
        for b in want:
            if b not in got or want.count(b) > got.count(b):
                problems.append("modelled unsafe block no longer present in %s: %s" % (b[0], b[1][:160]))
    if n_sites != 16:
        problems.append("expected 16 unsafe sites in the non-simd source (the ones modelled in Unsafe.lean / UnsafeIter.lean), found %d" % n_sites)
    return problems


CFG = {
    "extra_audit": unsafe_sites_audit,
    "gen_profiles": ["C15", "C03W", "C16T", "C17"],
    "cases": {"quick": 1400, "thorough": 16000},
    "compare": "set",
    "impl_only": True,
    "bad_marker": r"UB-SITE|<no-output",
    "allow_nonwf": True,
    "nontrivial": lambda ops, outs: any(o.startswith("ok calls=") and "panics=0" not in o for o in outs) or any(o.startswith("ok") and op.startswith("deser_raw") for op, o in zip(ops, outs)),
    "rule": ("values are injected with deserialize_unchecked_from / intersection_with_serialized_unchecked applied to structured "
             "corruptions of valid streams (swapped / duplicated array values, wrong cardinalities, changed keys, flipped bitset "
             "bits, wrong counts, truncation, extension, run cookie over a run-free body) and to arbitrary bytes; every value is "
             "then pushed through ~600 public API calls (api_sweep: queries, iterators with advance_to/advance_back_to, mutators "
             "on clones, all binary operator forms against a second operand, relations, multi-ops, serialization, from_lsb0_bytes) "
             "each under catch_unwind, in both build profiles, with the cfg(roaring_verif) bounds recorder in front of all 16 "
             "unchecked accesses; in addition the iterator scripts of profiles C03W (cursor windows of one bitset chunk: every pair of "
             "advance_to / advance_back_to targets incl. crossing cursors) and C16T (extreme targets, all four iterator types) run on "
             "well-formed values, and the bit-slice imports of profile C17 (all byte offsets, i.e. all alignments of the chunk copies), "
             "with the recorders armed (the run loop checks them after EVERY op). Violation = a recorder fired (index >= len) or the harness process died. Non-trivial = the "
             "decoder accepted the corrupted stream (an ill-formed value exists) or a sweep call panicked; distinct by SHA-1 of ops"),
    "targets": {
        "unchecked decoder accepted a corrupted stream": r"^deser_raw .*=> ok",
        "decoder rejected": r"^deser_raw .*=> err",
        "sweep with panics (ill-formed value exercised)": r"^api_sweep .*panics=[1-9]",
        "inter_raw ok": r"^inter_raw .*=> ok",
        "inter_raw err": r"^inter_raw .*=> err",
    },
    "gaps": ["aliasing, provenance, uninitialised memory, data races and unsafe code inside std/bytemuck/byteorder are outside the model",
             "theorems cover the index arithmetic of the unsafe sites in the model; the Rust sites are tied by the recorders on generated inputs only",
             "fidelity audit of the store kernels and 32-bit iterators (notes/fidelity-stores-iter32.md): the index-level loops of Unsafe.lean / UnsafeIter.lean are the mirrored twins of the list-level model the correspondence runs; all ties are unconditional equalities (C15_merge_eq_model, C15_retain_eq_model, C15_biter_erasure) and the last missing one — retain with the stateless closures of ArrayStore &= / -= &BitmapStore = List.filter — is added (C15_retain_filter_eq_model)"],
    "level_text": "Partial by nature. Theorems (Lean 4): for arbitrary, also ill-formed, model states the index computed at each unchecked access is in bounds. Tie: cfg(roaring_verif) recorders assert index < len immediately before each of the 16 unchecked accesses while the whole public API runs over ill-formed values from the unchecked decoders; per-site (accesses, max index, min slack) are reported in the evidence.",
    "level_note": "A Lean theorem cannot exhibit undefined behaviour; what is proved is the bounds logic. Not covered: aliasing/provenance/uninitialised memory/data races; unsafe inside dependencies; inputs not generated. Hook = add-only cfg(roaring_verif) code in /repo (MANIFEST.hooks).",
    "technique": "Lean 4 theorems on index bounds of every unsafe site for arbitrary states + guarded bounds recorders exercised by API sweeps over ill-formed values (correspondence is implementation-only for this property)",
}
