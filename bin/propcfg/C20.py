from props import only  # noqa: F401

CFG = {
    "gen_profiles": ["C20"],
    "cases": {"quick": 300, "thorough": 3000},
    # the representation part of `dump` (statistics, serialized_size, serialised bytes) is what C20 is about
    "compare": "full",
    "rule": ("cases = corpus + seeded histories (harness gen --profile C20) that bring 1-3 chunks to populations 4094..4098 through "
             "different producers (range insert, single inserts, remove_range, push, remove_smallest/biggest, from_lsb0) and then step "
             "across the limit in both directions, with `stats` (statistics() + serialized_size(), next to the SPEC value computed from "
             "the element list alone) and `dump` after every step; non-trivial = some dump shows a bitset chunk or >= 2 chunks; "
             "distinct by SHA-1 of the ops"),
    "targets": {
        "one chunk of exactly 4096 values is an array container": r"^stats b0 => nc=1 na=1 nr=0 nb=0 va=4096 vr=0 vb=0 card=4096 ",
        "one chunk of exactly 4097 values is a bitset container": r"^stats b0 => nc=1 na=0 nr=0 nb=1 va=0 vr=0 vb=4097 card=4097 ",
        "one chunk of exactly 4095 values": r"^stats b0 => nc=1 na=1 nr=0 nb=0 va=4095 ",
        "array and bitset containers together": r"^stats b0 => nc=\d+ na=[1-9]\d* nr=0 nb=[1-9]",
        "three containers": r"^stats b0 => nc=3 ",
        "empty bitmap": r"^stats b0 => nc=0 na=0 nr=0 nb=0 va=0 vr=0 vb=0 card=0 min=none max=none ssz=8$",
        "some chunk at exactly 4096": r"^range_cardinality b0 \S+ \S+ => 4096$",
        "some chunk at exactly 4097": r"^range_cardinality b0 \S+ \S+ => 4097$",
        "producer: single inserts": r"^extend b0 ",
        "producer: remove_smallest": r"^remove_smallest b0 [1-9]",
        "producer: remove_biggest": r"^remove_biggest b0 [1-9]",
        "producer: remove_range": r"^remove_range b0 \S+ \S+ => [1-9]",
        "producer: push": r"^push b0 \d+ => true",
        "producer: from_lsb0": r"^from_lsb0 b0 ",
        "u32::MAX chunk": r"^stats b0 => .* max=42949\d+ ",
    },
    "gaps": [
        "none: C20 (all fields of statistics() + serialized_size() = Spec.stats of the element set) is unconditional for every well-formed value (shared Bitmap.WF); the former kernel hypothesis BStoreMinMax is discharged by BStore.min?_spec / max?_spec (C20_minmax); C20_groups characterises Spec.groups on the element list (keys strictly ascending = the distinct 16-bit prefixes, each with the positive number of elements under it)",
        "the theorems are about well-formed values (shared Bitmap.WF of Inv.lean; Lemmas/MiscWF.bitmapWF_iff bridges the local copy); that every public producer yields a well-formed value is the subject of the C01/C02/C04/C06/C17 producer theorems",
        'model-fidelity audit (notes/fidelity-codecs.md): statistics() was modelled by one traversal per field (filter by kind + length / len); the Rust is a single loop bumping eight counters. The driver (`dump`, `stats`) now executes the mirrored loop Bitmap.statisticsM (StatsAcc.step per container), proved equal for EVERY value (Fidelity.statisticsM_eq, C20_statistics_mirror_eq), and C20 is restated for it (C20_mirror)',
    ],
    "level_text": "Theorems (Lean 4, kernel-checked) that for every well-formed model bitmap the fields of statistics() and serialized_size() equal the values the property assigns to its element set (prefix groups split at 4096, no run containers, 8 + sum(8 + min(2*card, 8192))); the model is tied to the Rust source by running both on the same generated histories in two build profiles and comparing statistics(), serialized_size() and the serialised bytes after every step. Unbounded quantifier = theorem; tie = sampled.",
    "level_note": "Trusted: Lean kernel; the hand-written model mirrors the code (checked by correspondence on generated histories only); Spec.stats as the meaning of the property; well-formedness of reachable values is the subject of C01/C02/C04 (producer theorems), here a hypothesis. n_bytes_* fields are allocator-dependent and not compared. See evidence coverage.proof_gaps.",
}
